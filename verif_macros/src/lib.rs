//! One attribute macro, no dependencies: `#[verif_macros::plain_async_main]`
//! removes a following `#[tokio::main]` attribute from the item it is placed
//! on, so that `async fn main()` stays an ordinary async function the
//! simulator can call on its own runtime. Used only by /repo hook H1b, only
//! under `--cfg breez_trampoline_verif`.
use proc_macro::{Delimiter, TokenStream, TokenTree};

#[proc_macro_attribute]
pub fn plain_async_main(_attr: TokenStream, item: TokenStream) -> TokenStream {
    let toks: Vec<TokenTree> = item.into_iter().collect();
    let mut out: Vec<TokenTree> = Vec::with_capacity(toks.len());
    let mut i = 0;
    while i < toks.len() {
        if let (TokenTree::Punct(p), Some(TokenTree::Group(g))) = (&toks[i], toks.get(i + 1)) {
            if p.as_char() == '#' && g.delimiter() == Delimiter::Bracket {
                let s: String = g.stream().to_string().split_whitespace().collect();
                if s == "tokio::main" {
                    i += 2;
                    continue;
                }
            }
        }
        out.push(toks[i].clone());
        i += 1;
    }
    out.into_iter().collect()
}
