//! E1, the process engine: the real `main()` of the plugin on a paused,
//! seeded, single-threaded tokio runtime, connected to SimNode through the
//! seam (DESIGN.md 4.1 - 4.3).

use std::time::Duration;

use serde_json::{json, Value};

use super::content::{self, pool, RunCfg};
use super::node::{
    Answer, CallRec, CmdState, HtlcRec, HtlcState, Method, PartStatus, RpcFault, RpcState, SimNode,
};
use super::ops::{NotifyMode, Op, RpcSel};
use super::oracle::Oracles;
use super::reference::{self as rf, Class, H32};
use super::rng::{mix, Fnv};
use super::seam::{self, PluginEvent, SimReply};
use super::world::World;

macro_rules! note {
    ($s:expr, $($arg:tt)*) => {
        if $s.event_dump.is_some() {
            let line = format!($($arg)*);
            $s.push_note(line);
        }
    };
}

pub trait Scheduler {
    /// Next operation, or None to end the run.
    fn next(&mut self, sim: &Sim) -> Option<Op>;
}

#[derive(Default, Clone, Debug)]
pub struct RunStats {
    pub lifetimes: u32,
    pub ops: u64,
    pub virtual_ms: u64,
    pub htlcs_offered: u64,
    pub calls: u64,
    pub answers: [u64; 5],
    pub log_msgs: u64,
    pub stdout_msgs: u64,
    pub faults: std::collections::BTreeMap<&'static str, u64>,
}

impl RunStats {
    pub fn fault(&mut self, k: &'static str) {
        *self.faults.entry(k).or_insert(0) += 1;
    }
}

pub struct Sim {
    pub seed: u64,
    pub content_seed: u64,
    pub w: World,
    pub or: Oracles,
    pub out_buf: Vec<u8>,
    pub stdin_written: u64,
    pub stdin_released: u64,
    /// block_added notifications written but not yet fully readable: (end offset, height)
    pub pending_notifs: Vec<(u64, u32)>,
    pub ops_done: Vec<Op>,
    pub log: Fnv,
    pub trace: Fnv,
    pub stats: RunStats,
    pub origin: Option<tokio::time::Instant>,
    pub wall_last_ns: u128,
    pub event_dump: Option<Vec<String>>,
    pub sets_offered: Vec<(u32, usize, &'static str)>,
    /// Options the manifest advertises as dynamic (lightningd may then send setconfig).
    pub dynamic_options: Vec<String>,
    pub setconfig_pending: bool,
    pub stop_on_violation_of: Option<&'static str>,
    /// Abstract states visited / transitions taken (DESIGN.md section 8).
    pub abs_states: std::collections::HashSet<u64>,
    pub abs_trans: std::collections::HashSet<(u64, u64)>,
    prev_abs: std::collections::BTreeMap<H32, u64>,
}

enum End {
    Crash,
    Done,
}

impl Sim {
    pub fn new(seed: u64, cfg: RunCfg) -> Self {
        let mut node = SimNode::new(cfg.start_height);
        node.pay_placeholder_preimage = cfg.pay_placeholder;
        node.big_messages = cfg.big_messages;
        node.sync_warnings = cfg.sync_warnings;
        Sim {
            seed,
            content_seed: mix(seed, 0xC0_47E47),
            w: World {
                cfg,
                node,
                step: 0,
                now_ms: 0,
                lifetime_base_ms: 0,
                told_low: 0,
                told_all: 0,
                told_low_step_start: 0,
                told_all_step_start: 0,
                getinfo_replies_this_lifetime: 0,
                skew_s: 0,
                plugin_up: false,
                init_acked: false,
                main_result: None,
                quiescing: false,
                frozen_hard: 0,
                frozen_soft: 0,
                frozen_at_step: None,
                comp_pending_blocks: Vec::new(),
                catchup: None,
                step_malformed_notification: false,
                steps_since_quiesce: 0,
                malformed_notifications_sent: 0,
                op_kind: "boot",
                step_delivers_only_nontrampoline: false,
                step_delivered_calls: Vec::new(),
                step_has_rpc_stimulus: false,
            },
            or: Oracles::new(),
            out_buf: Vec::new(),
            stdin_written: 0,
            stdin_released: 0,
            pending_notifs: Vec::new(),
            ops_done: Vec::new(),
            log: Fnv::default(),
            trace: Fnv::default(),
            stats: RunStats::default(),
            origin: None,
            wall_last_ns: 0,
            event_dump: None,
            sets_offered: Vec::new(),
            dynamic_options: Vec::new(),
            setconfig_pending: false,
            stop_on_violation_of: None,
            abs_states: Default::default(),
            abs_trans: Default::default(),
            prev_abs: Default::default(),
        }
    }

    fn push_note(&mut self, line: String) {
        let (step, now) = (self.w.step, self.w.now_ms);
        if let Some(d) = self.event_dump.as_mut() {
            d.push(format!("[{:>4} t={:>9}ms] {}", step, now, line));
        }
    }

    // ------------------------------------------------------------------------
    // Top level
    // ------------------------------------------------------------------------

    pub fn run(&mut self, sched: &mut dyn Scheduler) {
        loop {
            let lt = self.w.node.lifetime;
            let rt = tokio::runtime::Builder::new_current_thread()
                .enable_time()
                .start_paused(true)
                .rng_seed(tokio::runtime::RngSeed::from_bytes(
                    &mix(self.seed, 0x11FE + lt as u64).to_le_bytes(),
                ))
                .build()
                .expect("runtime");
            let mut ctx = seam::Ctx::new();
            ctx.log_enabled = self.w.cfg.log;
            ctx.wall.base_ns = (1_700_000_000_000u128 + self.w.now_ms as u128) * 1_000_000;
            ctx.wall.skew_ns = self.w.skew_s as i128 * 1_000_000_000;
            ctx.wall.last_ns = self.wall_last_ns;
            if self.w.cfg.chunking == 2 {
                ctx.stdin.read_max = 1;
            } else if self.w.cfg.chunking == 1 {
                ctx.stdin.read_max = 7;
            }
            if self.w.cfg.backpressure {
                ctx.stdout.write_max = 5;
            }
            ctx.yield_permille = self.w.cfg.f_yield;
            ctx.yield_state = mix(self.seed, 0x71E1D + lt as u64) | 1;
            ctx.late_permille = self.w.cfg.f_timer_late;
            ctx.late_state = mix(self.seed, 0x1A7E + lt as u64) | 1;
            tokio::verif_hook::set(Some(seam::yield_coin));
            tokio::verif_hook::set_late(Some(seam::late_coin));
            seam::install(ctx);
            self.w.lifetime_base_ms = self.w.now_ms;
            self.stats.lifetimes += 1;
            let end = rt.block_on(self.lifetime(sched));
            seam::drop_subscriber();
            drop(rt);
            if let Some(ctx) = seam::uninstall() {
                self.wall_last_ns = ctx.wall.last_ns;
                if ctx.yields > 0 {
                    *self.stats.faults.entry("task-yield-before-lock").or_insert(0) += ctx.yields;
                }
                if ctx.lates > 0 {
                    *self.stats.faults.entry("timer-observed-late").or_insert(0) += ctx.lates;
                }
                self.stats.faults.entry("stdout-pending").or_insert(0);
                *self.stats.faults.get_mut("stdout-pending").unwrap() += ctx.stdout.pending_returns;
                *self.stats.faults.entry("stdout-short-write").or_insert(0) +=
                    ctx.stdout.short_writes;
            }
            self.w.plugin_up = false;
            match end {
                End::Crash => {
                    if self.w.node.lifetime >= self.w.cfg.max_lifetimes + 8 {
                        break;
                    }
                    continue;
                }
                End::Done => break,
            }
        }
        self.stats.virtual_ms = self.w.now_ms;
    }

    fn refresh_now(&mut self) {
        if let Some(o) = self.origin {
            let el = tokio::time::Instant::now().saturating_duration_since(o);
            self.w.now_ms = self.w.lifetime_base_ms + el.as_millis() as u64;
        }
    }

    async fn settle(&mut self) {
        tokio::time::sleep(Duration::from_millis(1)).await;
        tokio::time::sleep(Duration::from_millis(1)).await;
        self.refresh_now();
    }

    async fn lifetime(&mut self, sched: &mut dyn Scheduler) -> End {
        let origin = tokio::time::Instant::now();
        self.origin = Some(origin);
        seam::with(|c| c.wall.origin = Some(origin));
        self.out_buf.clear();
        self.stdin_written = 0;
        self.stdin_released = 0;
        self.pending_notifs.clear();
        self.w.told_low = 0;
        self.w.told_all = 0;
        self.w.getinfo_replies_this_lifetime = 0;
        self.w.init_acked = false;
        self.w.malformed_notifications_sent = 0;
        self.w.main_result = None;
        self.w.plugin_up = true;
        self.or.on_boot(&self.w);
        let mode = self.w.cfg.mode.clone();
        match mode.as_str() {
            "process" => {
                tokio::spawn(async {
                    let r = crate::main().await;
                    seam::push_event(PluginEvent::MainReturned(
                        r.map_err(|e| format!("{:#}", e)),
                    ));
                });
                self.boot().await;
                self.or.on_boot_done(&self.w);
            }
            other => {
                self.spawn_component(other);
                self.settle().await;
                self.process_events();
            }
        }

        loop {
            if self.w.step >= self.w.cfg.max_ops as u64 + 400 {
                break;
            }
            let op = match sched.next(self) {
                Some(op) => op,
                None => break,
            };
            self.ops_done.push(op.clone());
            self.stats.ops += 1;
            self.log.str(&serde_json::to_string(&op).unwrap());
            self.trace.str(op.kind());
            note!(self, "OP {:?}", op);
            if let Op::Crash {
                lose_answers,
                down_s,
            } = op
            {
                self.stats.fault("node-crash");
                if lose_answers {
                    self.stats.fault("response-lost-in-crash");
                }
                let since = if lose_answers { Some(self.w.step) } else { None };
                self.or.on_crash(&self.w);
                self.w.node.crash(since);
                // Time does not stand still while the node is down.
                self.w.now_ms += down_s.max(1) * 1000;
                if down_s > 3600 {
                    self.stats.fault("long-downtime");
                }
                return End::Crash;
            }
            self.w.step += 1;
            if self.w.quiescing {
                self.w.steps_since_quiesce += 1;
            }
            if self.w.node.expire_waits(self.w.now_ms) > 0 {
                self.stats.fault("waitsendpay-timeout-200");
            }
            self.w.op_kind = op.kind();
            self.w.told_low_step_start = self.w.told_low;
            self.w.told_all_step_start = self.w.told_all;
            self.w.step_delivered_calls.clear();
            self.w.step_malformed_notification = matches!(
                &op,
                Op::Block {
                    notify: NotifyMode::Malformed(_),
                    ..
                }
            );
            self.w.step_delivers_only_nontrampoline = false;
            self.w.step_has_rpc_stimulus = false;
            if let Op::Multi { ops } = &op {
                self.stats.fault("multi-op-step");
                for o in ops {
                    self.execute(o).await;
                    if let Op::Time { .. } = o {
                        // The plugin ran while time passed: what it did comes
                        // before the operations that follow in this step.
                        self.process_events();
                    }
                }
            } else {
                self.execute(&op).await;
            }
            self.settle().await;
            self.process_events();
            if seam::rpc_cap_hit() {
                // A request storm (more RPC calls in one step than the
                // simulator can have provoked): the run is abandoned, nothing
                // is concluded from it beyond the per-step rules so far.
                self.stats.fault("run-abandoned-rpc-storm");
                note!(self, "RUN ABANDONED: more than {} RPC calls in one step", seam::RPC_STEP_CAP);
                return End::Done;
            }
            if self.w.cfg.mode == "watcher" {
                seam::comp_send("query", 0);
                self.settle().await;
                self.process_events();
            }
            self.or.end_of_step(&self.w);
            self.record_abstract();
            if self.should_stop() {
                return End::Done;
            }
        }
        self.or.end_of_run(&self.w);
        End::Done
    }

    /// Abstract state per touched hash: (store kind, parts, pay running, |held|
    /// bucket, reference entry flags, kinds of outstanding RPCs).
    fn record_abstract(&mut self) {
        let touched = self.or.touched.clone();
        for x in touched {
            let n = &self.w.node;
            let mut f = Fnv::default();
            f.u64(match n.store(&x) {
                rf::StoreKind::Absent => 0,
                rf::StoreKind::Free => 1,
                rf::StoreKind::Pending { .. } => 2,
                rf::StoreKind::Succeeded(_) => 3,
                rf::StoreKind::Garbage => 4,
            });
            f.u64(n.has_pending(&x) as u64);
            f.u64(n.has_complete(&x) as u64);
            f.u64(n.cmd_running(&x) as u64);
            f.u64(n.pay_rpc_outstanding(&x) as u64);
            let held = Oracles::held_for(&self.w, &x).count();
            f.u64(held.min(3) as u64);
            match self.or.entries.get(&x) {
                None => f.u64(99),
                Some(e) => {
                    f.u64(e.funded as u64);
                    f.u64(e.doomed.is_some() as u64);
                    f.u64(e.either as u64);
                    f.u64(e.marker_issued as u64);
                    f.u64(e.pay_issued as u64);
                    f.u64(e.restart_path as u64);
                    f.u64(match &e.fetch_reply {
                        None => 0,
                        Some(Ok(_)) => 1,
                        Some(Err(_)) => 2,
                    });
                }
            }
            let mut mask = 0u64;
            for (_, r) in n.outstanding_rpcs() {
                if r.hash == Some(x) {
                    mask |= 1 << (super::oracle::rpc_kind(r.method, &r.params) as u64);
                }
            }
            f.u64(mask);
            f.u64(self.w.plugin_up as u64);
            let s = f.0;
            self.abs_states.insert(s);
            if let Some(p) = self.prev_abs.insert(x, s) {
                if p != s {
                    self.abs_trans.insert((p, s));
                }
            }
        }
    }

    /// E2: run one real component directly on the simulated RPC seam.
    fn spawn_component(&mut self, mode: &str) {
        use crate::payment_provider::{PayPaymentProvider, PaymentProvider, PaymentRequest};
        use crate::rpc::Rpc;
        use std::sync::Arc;
        let p = pool();
        let hash = p.hashes[0];
        // Parts that exist before the call (only in the first lifetime).
        if self.w.node.lifetime == 0 && !self.w.cfg.pre_parts.is_empty() {
            // Each entry: status (low nibble: 0 pending, 1 failed, 2 complete)
            // and group (high nibble: 0 => groupid 1, 1 => groupid 2, ...):
            // parts of an older pay command may still be unresolved while a
            // newer group exists.
            let states = self.w.cfg.pre_parts.clone();
            let n_groups = states.iter().map(|s| (s >> 4) as u64 + 1).max().unwrap_or(1);
            for g in 1..=n_groups {
                self.w.node.pay_cmds.push(super::node::PayCmd {
                    rpc: 0,
                    hash,
                    bolt11: p.inv(0, content::InvKind::Fixed).bolt11.clone(),
                    amount_msat: p.fixed_amounts[0],
                    maxfee: 0,
                    maxdelay: 0,
                    retry_for: 0,
                    label: None,
                    groupid: g,
                    state: CmdState::Replied,
                    parts_created: 0,
                    lifetime: 0,
                    applied_seq: 0,
                });
            }
            for (i, st) in states.iter().enumerate() {
                let g = (st >> 4) as u64 + 1;
                let in_group = states.iter().filter(|s| (*s >> 4) as u64 + 1 == g).count();
                let ix_in_group = states[..i].iter().filter(|s| (*s >> 4) as u64 + 1 == g).count();
                let id = self.w.node.next_part_id;
                self.w.node.next_part_id += 1;
                self.w.node.parts.push(super::node::Part {
                    hash,
                    groupid: g,
                    partid: if in_group == 1 { 0 } else { ix_in_group as u64 + 1 },
                    status: match st & 15 {
                        0 => PartStatus::Pending,
                        1 => PartStatus::Failed(204),
                        _ => PartStatus::Complete,
                    },
                    amount_msat: 1000,
                    fee_msat: 0,
                    cmd: (g - 1) as usize,
                    id,
                    created_seq: 0,
                });
            }
        }
        let xpay = self.w.cfg.xpay;
        let timeout = Duration::from_secs(self.w.cfg.payment_timeout);
        let h = secp256k1::hashes::sha256::Hash::from_byte_array(hash);
        use secp256k1::hashes::Hash as _;
        match mode {
            "wait_payment" => {
                tokio::spawn(async move {
                    let prov = PayPaymentProvider::new(Arc::new(Rpc::new("sim".into())), timeout, xpay);
                    let r = prov.wait_payment(h).await;
                    let v = match r {
                        Ok(Some(p)) => json!({"ok": true, "preimage": rf::hex(&p)}),
                        Ok(None) => json!({"ok": true, "preimage": null}),
                        Err(e) => json!({"ok": false, "error": format!("{:#}", e)}),
                    };
                    seam::push_event(PluginEvent::Component("wait_payment".into(), v));
                });
            }
            "pay" => {
                let bolt11 = p.inv(0, content::InvKind::Fixed).bolt11.clone();
                tokio::spawn(async move {
                    let prov = PayPaymentProvider::new(Arc::new(Rpc::new("sim".into())), timeout, xpay);
                    let r = prov
                        .pay(PaymentRequest {
                            bolt11,
                            payment_hash: h,
                            amount_msat: None,
                            max_fee_msat: 5000,
                            max_cltv_delta: 100,
                        })
                        .await;
                    let v = match r {
                        Ok(p) => json!({"ok": true, "preimage": rf::hex(&p)}),
                        Err(e) => json!({"ok": false, "error": format!("{:#}", e)}),
                    };
                    seam::push_event(PluginEvent::Component("pay".into(), v));
                });
            }
            "watcher" => {
                use crate::block_watcher::{BlockProvider, BlockWatcher};
                let (ctx, mut crx) = tokio::sync::mpsc::unbounded_channel::<(String, u64)>();
                seam::with(|c| c.comp_tx = Some(ctx));
                tokio::spawn(async move {
                    let mut bw = BlockWatcher::new(Arc::new(Rpc::new("sim".into())));
                    let (_stx, srx) = tokio::sync::mpsc::channel(1);
                    let started = bw.start(srx).await;
                    match started {
                        Ok(_join) => {
                            seam::push_event(PluginEvent::Component("started".into(), json!(true)))
                        }
                        Err(e) => {
                            seam::push_event(PluginEvent::Component(
                                "start-failed".into(),
                                json!(format!("{:#}", e)),
                            ));
                        }
                    }
                    let bw = Arc::new(bw);
                    while let Some((cmd, arg)) = crx.recv().await {
                        match cmd.as_str() {
                            "new_block" => {
                                // Each notification is its own task, as in the plugin driver.
                                let bw2 = Arc::clone(&bw);
                                tokio::spawn(async move {
                                    bw2.new_block(&crate::messages::BlockAdded { height: arg as u32 })
                                        .await;
                                    seam::push_event(PluginEvent::Component(
                                        "new_block_done".into(),
                                        json!(arg),
                                    ));
                                });
                            }
                            _ => {
                                let h = bw.current_height().await;
                                seam::push_event(PluginEvent::Component("height".into(), json!(h)));
                            }
                        }
                    }
                    // keep the shutdown sender alive until here
                    drop(_stx);
                });
            }
            _ => {}
        }
    }

    fn should_stop(&self) -> bool {
        match self.stop_on_violation_of {
            Some(p) => self.or.violations.iter().any(|v| v.prop == p),
            None => false,
        }
    }

    fn send_msg(&mut self, v: &Value, release_all: bool) -> u64 {
        let mut s = serde_json::to_vec(v).unwrap();
        s.extend_from_slice(b"\n\n");
        let n = s.len();
        seam::stdin_push(&s, if release_all { n } else { 0 });
        self.stdin_written += n as u64;
        if release_all {
            self.stdin_released = self.stdin_written;
        }
        self.stdin_written
    }

    fn init_options(&self) -> Value {
        let c = &self.w.cfg;
        if let Some(raw) = &c.raw_opts {
            let mut m = serde_json::Map::new();
            for (k, v) in raw {
                m.insert(k.clone(), json!(v));
            }
            m.insert("trampoline-no-self-route-hints".into(), json!(c.no_self_hints));
            m.insert("trampoline-email-subject".into(), json!("Trampoline payment failure"));
            m.insert("trampoline-xpay".into(), json!(c.xpay));
            if let Some(rj) = &c.raw_json_opts {
                for (k, v) in rj {
                    if let Ok(val) = serde_json::from_str::<Value>(v) {
                        m.insert(k.clone(), val);
                    }
                }
            }
            return Value::Object(m);
        }
        json!({
            "trampoline-cltv-delta": c.cltv_delta,
            "trampoline-policy-cltv-delta": c.policy_delta,
            "trampoline-policy-fee-base": c.policy_base,
            "trampoline-policy-fee-per-satoshi": c.policy_ppm,
            "trampoline-mpp-timeout": c.mpp_timeout,
            "trampoline-no-self-route-hints": c.no_self_hints,
            "trampoline-payment-timeout": c.payment_timeout,
            "trampoline-email-subject": "Trampoline payment failure",
            "trampoline-xpay": c.xpay,
        })
    }

    /// Handshake: getmanifest, init, and the two start-up getinfo calls,
    /// fault-free and in a fixed order (start-up faults belong to C19 / C20's
    /// dedicated drivers).
    async fn boot(&mut self) {
        self.w.op_kind = "boot";
        let lt = self.w.node.lifetime;
        self.settle().await;
        self.process_events();
        self.send_msg(
            &json!({"jsonrpc":"2.0","id":format!("hs:manifest:{}", lt),"method":"getmanifest","params":{"allow-deprecated-apis":false}}),
            true,
        );
        self.settle().await;
        self.process_events();
        let opts = self.init_options();
        if self.w.cfg.pipeline_init {
            // The first hook call arrives in the same chunk as `init`.
            let init = json!({"jsonrpc":"2.0","id":format!("hs:init:{}", lt),"method":"init","params":{
                "options": opts,
                "configuration": {"lightning-dir":"/l/regtest","rpc-file":"lightning-rpc","startup":true,"network":"regtest",
                    "feature_set":{"init":"08a0880a8a59a1","node":"88a0880a8a59a1","channel":"","invoice":"02000002024100"}}}});
            let mut prefix = serde_json::to_vec(&init).unwrap();
            prefix.extend_from_slice(b"\n\n");
            let spec = content::HtlcSpec {
                hash_ix: 0,
                htlc_hash: pool().hashes[0],
                hash_len: 32,
                req_mutation: 0,
                amount_msat: 1000,
                expiry_off: 2000,
                expiry_abs: None,
                rel_override: None,
                forward_msat: Some(1000),
                total_msat: Some(1000),
                onion_scid: Some("1x2x3".to_string()),
                payload_hex: "".to_string(),
                tag: "forward-pipelined-behind-init",
                intended_good: false,
            };
            let hid = self.add_htlc(spec, u32::MAX - 1, false);
            self.w.step_delivered_calls.clear();
            self.deliver_now(&[hid], u32::MAX, prefix);
            self.stats.fault("request-pipelined-behind-init");
        } else {
        self.send_msg(
            &json!({"jsonrpc":"2.0","id":format!("hs:init:{}", lt),"method":"init","params":{
                "options": opts,
                "configuration": {"lightning-dir":"/l/regtest","rpc-file":"lightning-rpc","startup":true,"network":"regtest",
                    "feature_set":{"init":"08a0880a8a59a1","node":"88a0880a8a59a1","channel":"","invoice":"02000002024100"}}}}),
            true,
        );
        }
        for _ in 0..6 {
            self.settle().await;
            self.process_events();
            if self.w.init_acked || self.w.main_result.is_some() {
                break;
            }
            let ids: Vec<usize> = self
                .w
                .node
                .rpcs
                .iter()
                .enumerate()
                .filter(|(_, r)| r.method == Method::Getinfo && matches!(r.state, RpcState::Issued))
                .map(|(i, _)| i)
                .collect();
            for i in ids {
                self.apply_rpc(i, RpcFault::None, true);
            }
        }
        self.settle().await;
        self.process_events();
        if self.w.init_acked && !self.dynamic_options.is_empty() {
            // The manifest invites setconfig for this option: the request must
            // be answered and must not take the plugin down.
            let name = self.dynamic_options[0].clone();
            self.setconfig_pending = true;
            self.send_msg(
                &json!({"jsonrpc":"2.0","id":format!("hs:setconfig:{}", lt),"method":"setconfig","params":{"config": name, "val": 61}}),
                true,
            );
            self.settle().await;
            self.process_events();
            if self.setconfig_pending {
                self.or.violate(
                    &self.w,
                    "C17",
                    "setconfig-not-answered",
                    format!("the manifest advertises option {} as dynamic but a setconfig request for it got no reply", name),
                );
            }
        }
    }

    // ------------------------------------------------------------------------
    // Operations
    // ------------------------------------------------------------------------

    pub fn hash_ix_of(h: &Option<H32>) -> u8 {
        match h {
            Some(h) => pool().hash_index(h).map(|i| i as u8).unwrap_or(254),
            None => 255,
        }
    }

    pub fn sel_of(&self, idx: usize) -> RpcSel {
        let r = &self.w.node.rpcs[idx];
        let hash = Self::hash_ix_of(&r.hash);
        let same_state = |s: &RpcState, t: &RpcState| {
            matches!(
                (s, t),
                (RpcState::Issued, RpcState::Issued) | (RpcState::ReplyReady(_), RpcState::ReplyReady(_))
            )
        };
        let nth = self.w.node.rpcs[..idx]
            .iter()
            .filter(|q| {
                q.method == r.method && Self::hash_ix_of(&q.hash) == hash && same_state(&q.state, &r.state)
            })
            .count();
        RpcSel {
            method: r.method,
            hash,
            nth: nth.min(255) as u8,
        }
    }

    fn find_rpc(&self, sel: &RpcSel, ready: bool) -> Option<usize> {
        let mut n = 0;
        for (i, r) in self.w.node.rpcs.iter().enumerate() {
            let st_ok = if ready {
                matches!(r.state, RpcState::ReplyReady(_))
            } else {
                matches!(r.state, RpcState::Issued)
            };
            if st_ok && r.method == sel.method && Self::hash_ix_of(&r.hash) == sel.hash {
                if n == sel.nth as usize {
                    return Some(i);
                }
                n += 1;
            }
        }
        None
    }

    fn build_call(&mut self, hid: u64) -> (Value, Value, String) {
        let height = self.w.node.height;
        let h = &self.w.node.htlcs[hid as usize];
        let s = &h.spec;
        let rel = s
            .rel_override
            .unwrap_or(h.expiry as i64 - height as i64);
        let mut onion = json!({
            "payload": s.payload_hex,
            "type": "tlv",
            "shared_secret": "9f2c1d7e00112233445566778899aabbccddeeff00112233445566778899aabb",
            "next_onion": "",
            "junk_\u{00fc}\u{4e16}": "\u{00e9}\u{20ac}\u{1f600} \\n\\n",
        });
        if let Some(sc) = &s.onion_scid {
            onion["short_channel_id"] = json!(sc);
        }
        if let Some(f) = s.forward_msat {
            onion["forward_msat"] = json!(f);
            onion["outgoing_cltv_value"] = json!(500);
        }
        if let Some(t) = s.total_msat {
            onion["total_msat"] = json!(t);
            onion["payment_secret"] =
                json!("2a2a2a2a2a2a2a2a2a2a2a2a2a2a2a2a2a2a2a2a2a2a2a2a2a2a2a2a2a2a2a2a");
        }
        let params = json!({
            "onion": onion,
            "htlc": {
                "short_channel_id": "103x2x1",
                "id": hid,
                "amount_msat": s.amount_msat,
                "cltv_expiry": h.expiry,
                "cltv_expiry_relative": rel,
                "payment_hash": wire_hash_hex(&s.htlc_hash, s.hash_len),
            },
            "forward_to": "0000000000000000000000000000000000000000000000000000000000000000",
        });
        let mut params = params;
        // Requests whose fields have the wrong JSON type or are missing
        // (HtlcSpec::req_mutation): undecodable for the plugin, which must
        // still answer them.
        match s.req_mutation {
            1 => params["htlc"]["id"] = json!(-1),
            2 => params["htlc"]["id"] = json!("7"),
            3 => {
                params["htlc"].as_object_mut().unwrap().remove("id");
            }
            4 => params["htlc"]["id"] = json!(1.5),
            5 => params["htlc"]["short_channel_id"] = json!(5),
            6 => params["htlc"]["amount_msat"] = json!("1000msat"),
            7 => params["htlc"]["cltv_expiry"] = json!(1u64 << 33),
            8 => params["htlc"]["payment_hash"] = json!(5),
            9 => {
                params.as_object_mut().unwrap().remove("onion");
            }
            10 => params["htlc"] = json!([1, 2, 3]),
            11 => params["onion"]["payload"] = json!(null),
            _ => {}
        }
        let n = self.w.node.next_call;
        self.w.node.next_call += 1;
        // The id as it goes on the wire, and the key replies are matched by
        // (the string itself, or "#json:" + canonical JSON for other shapes).
        let idv: Value = match self.w.cfg.id_style {
            1 => json!(1000 + n),
            2 => json!(u64::MAX - n),
            3 => json!(format!("cln:\"htlc\\accepted\"\u{e9}\u{1f600}#{}", n)),
            _ => json!(format!("cln:htlc_accepted#{}", n)),
        };
        let key = id_key(&idv);
        (params, idv, key)
    }

    fn add_htlc(&mut self, spec: content::HtlcSpec, set_ix: u32, is_probe: bool) -> u64 {
        let hid = self.w.node.next_hid;
        self.w.node.next_hid += 1;
        let expiry = match spec.expiry_abs {
            Some(a) => a,
            None => (self.w.node.height as i64 + spec.expiry_off).clamp(0, u32::MAX as i64) as u32,
        };
        self.w.node.htlcs.push(HtlcRec {
            hid,
            set_ix,
            spec,
            expiry,
            class: Class::Undecodable,
            state: HtlcState::Offered,
            deliveries: 0,
            final_answer: None,
            is_probe,
        });
        self.stats.htlcs_offered += 1;
        hid
    }

    fn mark_delivered(&mut self) {
        let released_now = self.stdin_released;
        let mut i = 0;
        while i < self.pending_notifs.len() {
            if self.pending_notifs[i].0 <= released_now {
                let h = self.pending_notifs.remove(i).1;
                self.w.told_low = self.w.told_low.max(h);
                self.w.told_all = self.w.told_all.max(h);
            } else {
                i += 1;
            }
        }
        let lt = self.w.node.lifetime;
        let step = self.w.step;
        let now = self.w.now_ms;
        let released = self.stdin_released;
        let mut newly = Vec::new();
        for (i, c) in self.w.node.calls.iter_mut().enumerate() {
            if c.lifetime == lt && c.delivered_step.is_none() && c.end_offset <= released {
                c.delivered_step = Some(step);
                c.delivered_at_ms = Some(now);
                newly.push(i);
            }
        }
        if !newly.is_empty() {
            for i in newly {
                self.w.step_delivered_calls.push(i);
                note!(
                    self,
                    "DELIVERED {} htlc {} class {} [{}] amount={} fwd={:?} total={:?} exp={} rel={}",
                    self.w.node.calls[i].call_id,
                    self.w.node.calls[i].hid,
                    match &self.w.node.calls[i].class {
                        Class::NotTrampoline(w) => format!("not-trampoline({})", w),
                        Class::Trampoline(t) => format!(
                            "trampoline(amount={} declared={} has_amount={})",
                            t.amount_msat, t.declared_total, t.invoice_has_amount
                        ),
                        o => super::oracle::class_name(o).to_string(),
                    },
                    self.w.node.htlcs[self.w.node.calls[i].hid as usize].spec.tag,
                    self.w.node.htlcs[self.w.node.calls[i].hid as usize].spec.amount_msat,
                    self.w.node.htlcs[self.w.node.calls[i].hid as usize].spec.forward_msat,
                    self.w.node.htlcs[self.w.node.calls[i].hid as usize].spec.total_msat,
                    self.w.node.htlcs[self.w.node.calls[i].hid as usize].expiry,
                    self.w.node.calls[i].params.pointer("/htlc/cltv_expiry_relative").cloned().unwrap_or_default()
                );
                self.or.on_call_delivered(&self.w, i);
            }
            self.w.step_delivers_only_nontrampoline = self.w.step_delivered_calls.iter().all(|i| {
                matches!(
                    self.w.node.calls[*i].class,
                    Class::NotTrampoline(_) | Class::NoForwardAmount
                )
            });
        }
    }

    async fn execute(&mut self, op: &Op) {
        match op {
            Op::Offer { set, hash } => {
                let spec = content::gen_set(
                    self.content_seed,
                    *set,
                    &self.w.cfg,
                    hash.map(|h| h as usize),
                );
                self.sets_offered.push((*set, spec.hash_ix, spec.shape));
                for h in spec.htlcs {
                    self.add_htlc(h, *set, false);
                }
            }
            Op::OfferProbe {
                hash,
                overpay,
                expiry_off,
            } => {
                if let Some(mut spec) = content::probe_set(&self.w.cfg, *hash as usize, *overpay) {
                    if let Some(e) = expiry_off {
                        spec.expiry_off = *e;
                    }
                    // Near the end of the u32 height range no HTLC with a
                    // comfortable expiry exists: no probe, no judgement.
                    if self.w.node.height as i64 + spec.expiry_off <= u32::MAX as i64 {
                        self.add_htlc(spec, u32::MAX, true);
                    }
                }
            }
            Op::Deliver { hids, release } => {
                if !self.w.init_acked {
                    return;
                }
                self.deliver_now(hids, *release, Vec::new());
            }
            Op::Feed { n } => {
                seam::stdin_release(*n as usize);
                let unreleased = seam::stdin_unreleased() as u64;
                self.stdin_released = self.stdin_written - unreleased;
                self.w.step_has_rpc_stimulus = true;
                self.mark_delivered();
            }
            Op::Apply {
                rpc,
                fault,
                deliver,
            } => {
                if let Some(i) = self.find_rpc(rpc, false) {
                    self.apply_rpc(i, *fault, *deliver);
                }
            }
            Op::Reply { rpc } => {
                if let Some(i) = self.find_rpc(rpc, true) {
                    self.stats.fault("rpc-reply-delayed");
                    self.deliver_reply(i);
                }
            }
            Op::CmdParts { cmd, n, fee_share } => {
                let ci = *cmd as usize;
                if ci < self.w.node.pay_cmds.len()
                    && self.w.node.pay_cmds[ci].state == CmdState::Running
                {
                    let c = &self.w.node.pay_cmds[ci];
                    let spent: u64 = self
                        .w
                        .node
                        .parts
                        .iter()
                        .filter(|p| p.cmd == ci)
                        .map(|p| p.fee_msat)
                        .sum();
                    let left = c.maxfee.saturating_sub(spent);
                    let n = (*n).max(1) as u64;
                    let fee_each =
                        ((left as u128 * (*fee_share).min(1000) as u128 / 1000) / n as u128) as u64;
                    self.w.node.cmd_create_parts(ci, n as u32, fee_each);
                    self.or.on_effect(&self.w, "parts-created");
                }
            }
            Op::CmdFinish { cmd, outcome } => {
                let ci = *cmd as usize;
                if ci < self.w.node.pay_cmds.len() && self.w.node.cmd_finish(ci, *outcome) {
                    self.stats.fault(match outcome {
                        super::node::PayOutcome::Complete => "pay-outcome-complete",
                        super::node::PayOutcome::FailedFinal => "pay-outcome-failed",
                        super::node::PayOutcome::FailedPartial => "pay-outcome-failed-partial",
                        super::node::PayOutcome::Pending => "pay-outcome-pending",
                        super::node::PayOutcome::Error(_) => "pay-outcome-error",
                    });
                    self.or.on_effect(&self.w, "cmd-finished");
                    let rid = self.w.node.pay_cmds[ci].rpc;
                    if let Some(i) = self
                        .w
                        .node
                        .rpcs
                        .iter()
                        .position(|r| r.id == rid && matches!(r.state, RpcState::ReplyReady(_)))
                    {
                        self.deliver_reply(i);
                    }
                }
            }
            Op::Part {
                part,
                complete,
                code,
            } => {
                let pi = *part as usize;
                if pi < self.w.node.parts.len()
                    && self.w.node.parts[pi].status == PartStatus::Pending
                {
                    self.w.node.resolve_part(pi, *complete, *code);
                    self.stats
                        .fault(if *complete { "part-complete" } else { "part-fail" });
                    self.or.on_part_resolved(&self.w, pi);
                    self.or.on_effect(&self.w, "part-resolved");
                }
            }
            Op::Time { ms } => {
                // tokio's timer wheel spans ~2.2 years; never sleep longer than
                // 116 days at once (every finite configured timeout is far below).
                // and never drive one runtime's clock past ~1.6 years in total.
                let elapsed = self.w.now_ms.saturating_sub(self.w.lifetime_base_ms);
                let room = 50_000_000_000u64.saturating_sub(elapsed).max(1);
                let ms = (*ms).min(10_000_000_000).min(room);
                tokio::time::sleep(Duration::from_millis(ms)).await;
                self.refresh_now();
            }
            Op::Block { k, notify } => {
                self.w.node.height = self.w.node.height.saturating_add(*k);
                let h = self.w.node.height;
                let send = |s: &mut Sim, height: u32| {
                    if !s.w.init_acked {
                        return;
                    }
                    s.send_msg(
                        &json!({"jsonrpc":"2.0","method":"block_added","params":{"block_added":{
                            "hash":"000000000000000000000000000000000000000000000000000000000000abcd","height":height}}}),
                        true,
                    );
                    let unreleased = seam::stdin_unreleased() as u64;
                    s.stdin_released = s.stdin_written - unreleased;
                    if unreleased == 0 {
                        s.w.told_low = s.w.told_low.max(height);
                        s.w.told_all = s.w.told_all.max(height);
                    } else {
                        // readable only once the reader has been fed up to here
                        s.pending_notifs.push((s.stdin_written, height));
                    }
                    s.mark_delivered();
                };
                match notify {
                    NotifyMode::Deliver => send(self, h),
                    NotifyMode::Drop => self.stats.fault("notification-drop"),
                    NotifyMode::Dup => {
                        self.stats.fault("notification-dup");
                        send(self, h);
                        send(self, h);
                    }
                    NotifyMode::Stale(s) => {
                        self.stats.fault("notification-stale");
                        send(self, *s);
                    }
                    NotifyMode::Burst(s) => {
                        self.stats.fault("notification-burst-with-stale");
                        send(self, h);
                        send(self, *s);
                    }
                    NotifyMode::Malformed(kind) => {
                        self.stats.fault("notification-malformed");
                        if self.w.init_acked {
                            self.w.malformed_notifications_sent += 1;
                            let params = match kind % 5 {
                                0 => json!({"block": {"hash": "00", "height": h}}),
                                1 => json!({"block_added": {"hash": "00"}}),
                                2 => json!({"block_added": {"hash": "00", "height": 4294967296u64}}),
                                3 => json!({"block_added": {"hash": "00", "height": "800000"}}),
                                _ => json!({}),
                            };
                            self.send_msg(
                                &json!({"jsonrpc":"2.0","method":"block_added","params":params}),
                                true,
                            );
                            let unreleased = seam::stdin_unreleased() as u64;
                            self.stdin_released = self.stdin_written - unreleased;
                            self.mark_delivered();
                        }
                    }
                }
            }
            Op::ClockJump { secs } => {
                self.stats.fault("clock-jump");
                self.w.skew_s += *secs;
                let ns = self.w.skew_s as i128 * 1_000_000_000;
                seam::with(|c| c.wall.skew_ns = ns);
            }
            Op::Outage { on } => {
                if *on {
                    self.stats.fault("rpc-outage");
                }
                self.w.node.outage = *on;
            }
            Op::StdoutGrant { n } => {
                seam::stdout_grant(if *n == u32::MAX {
                    usize::MAX
                } else {
                    *n as usize
                });
            }
            Op::QuiesceMark => {
                self.w.quiescing = true;
                self.w.node.outage = false;
                seam::stdout_grant(usize::MAX);
                seam::with(|c| c.stdout.write_max = usize::MAX);
                seam::stdin_release(usize::MAX);
                self.stdin_released = self.stdin_written;
                self.mark_delivered();
            }
            Op::Comp { cmd, arg } => {
                if cmd == "new_block" {
                    self.w.comp_pending_blocks.push(*arg as u32);
                }
                seam::comp_send(cmd, *arg);
            }
            Op::CatchupMark => {
                self.w.catchup = Some((self.w.node.height, self.w.now_ms));
            }
            Op::Freeze { hash, soft } => {
                if (*hash as usize) < 32 {
                    if *soft {
                        self.w.frozen_soft |= 1 << *hash;
                        self.stats.fault("hash-payment-stalled");
                    } else {
                        self.w.frozen_hard |= 1 << *hash;
                        self.stats.fault("hash-frozen");
                    }
                    if self.w.frozen_at_step.is_none() {
                        self.w.frozen_at_step = Some(self.w.step);
                    }
                }
            }
            Op::Multi { .. } => {}
            Op::Crash { .. } => unreachable!(),
        }
    }

    /// Writes htlc_accepted requests for `hids` (preceded by `prefix` bytes) to
    /// the plugin's stdin in one write.
    fn deliver_now(&mut self, hids: &[u64], release: u32, prefix: Vec<u8>) {
        let mut bytes: Vec<u8> = prefix;
        let base = self.stdin_written;
        let ccfg = self.w.class_cfg();
        for hid in hids.iter() {
            let ok = (*hid as usize) < self.w.node.htlcs.len()
                && self.w.node.htlcs[*hid as usize].state == HtlcState::Offered;
            if !ok {
                continue;
            }
            let (params, idv, call_id) = self.build_call(*hid);
            let class = rf::classify(&params, &ccfg);
            let msg = json!({"jsonrpc":"2.0","id":idv,"method":"htlc_accepted","params":params});
            let mut s = serde_json::to_vec(&msg).unwrap();
            s.extend_from_slice(b"\n\n");
            bytes.extend_from_slice(&s);
            let seq = self.w.node.tick();
            let lt = self.w.node.lifetime;
            self.w.node.calls.push(CallRec {
                call_id,
                hid: *hid,
                lifetime: lt,
                params,
                class: class.clone(),
                written_seq: seq,
                delivered_step: None,
                delivered_at_ms: None,
                answer: None,
                answered_step: None,
                answered_at_ms: None,
                extra_answers: 0,
                end_offset: base + bytes.len() as u64,
            });
            let ci = self.w.node.calls.len() - 1;
            let h = &mut self.w.node.htlcs[*hid as usize];
            h.state = HtlcState::InFlight(ci);
            h.class = class;
            h.deliveries += 1;
            if h.deliveries > 1 {
                self.stats.fault("htlc-replay");
            }
            self.stats.calls += 1;
        }
        if bytes.is_empty() {
            return;
        }
        let rel = (release as usize).min(bytes.len());
        if rel < bytes.len() {
            self.stats.fault("stdin-chunked");
        }
        seam::stdin_push(&bytes, rel);
        self.stdin_written += bytes.len() as u64;
        self.stdin_released += rel as u64;
        // Bytes written earlier but not yet released stay in front.
        let unreleased = seam::stdin_unreleased() as u64;
        self.stdin_released = self.stdin_written - unreleased;
        self.w.step_has_rpc_stimulus = true;
        self.mark_delivered();

    }

    pub fn apply_rpc(&mut self, i: usize, fault: RpcFault, deliver: bool) {
        if !matches!(self.w.node.rpcs[i].state, RpcState::Issued) {
            return;
        }
        let method = self.w.node.rpcs[i].method;
        let outage = self.w.node.outage;
        self.w.node.apply_rpc(i, fault);
        match (fault, outage) {
            (_, true) => self.stats.fault("rpc-rejected-outage"),
            (RpcFault::Transport, _) => self.stats.fault(match method {
                Method::Datastore => "rpc-rejected:datastore",
                Method::Listdatastore => "rpc-rejected:listdatastore",
                Method::Listsendpays => "rpc-rejected:listsendpays",
                Method::Waitsendpay => "rpc-rejected:waitsendpay",
                Method::Pay => "rpc-rejected:pay",
                Method::Getinfo => "rpc-rejected:getinfo",
                Method::Other => "rpc-rejected:other",
            }),
            (RpcFault::Code(_), _) => self.stats.fault(match method {
                Method::Waitsendpay => "rpc-error-code:waitsendpay",
                Method::Pay => "rpc-error-code:pay",
                Method::Datastore => "rpc-error-code:datastore",
                _ => "rpc-error-code:read",
            }),
            (RpcFault::AppliedButError, _) => self.stats.fault("rpc-applied-but-error"),
            (RpcFault::None, _) => {}
        }
        if let RpcState::WaitingPart(_) = self.w.node.rpcs[i].state {
            if let Some(t) = self.w.node.rpcs[i].params.get("timeout").and_then(|t| t.as_u64()) {
                self.w.node.rpcs[i].deadline_ms = Some(self.w.now_ms + t * 1000);
            }
        }
        self.log.str("applied");
        self.log.u64(self.w.node.rpcs[i].id);
        note!(
            self,
            "APPLY rpc#{} {:?} -> {}",
            self.w.node.rpcs[i].id,
            self.w.node.rpcs[i].method,
            short_state(&self.w.node.rpcs[i].state)
        );
        self.or.on_rpc_applied(&self.w, i);
        if deliver {
            if matches!(self.w.node.rpcs[i].state, RpcState::ReplyReady(_)) {
                self.deliver_reply(i);
            }
        } else {
            self.stats.fault("rpc-reply-parked");
        }
    }

    pub fn deliver_reply(&mut self, i: usize) {
        let reply = match &self.w.node.rpcs[i].state {
            RpcState::ReplyReady(r) => r.clone(),
            _ => return,
        };
        self.w.node.rpcs[i].state = RpcState::Done;
        let id = self.w.node.rpcs[i].id;
        if self.w.node.rpcs[i].method == Method::Getinfo {
            if let SimReply::Result(v) = &reply {
                if let Some(h) = v.get("blockheight").and_then(|h| h.as_u64()) {
                    let h = h as u32;
                    if self.w.getinfo_replies_this_lifetime > 0 {
                        self.w.told_low = self.w.told_low.max(h);
                    }
                    self.w.told_all = self.w.told_all.max(h);
                    self.w.getinfo_replies_this_lifetime += 1;
                }
            }
        }
        self.log.str("reply");
        self.log.u64(id);
        self.w.step_has_rpc_stimulus = true;
        self.or.on_reply_delivered(&self.w, i, &reply);
        seam::rpc_reply(id, reply);
    }

    // ------------------------------------------------------------------------
    // Plugin -> simulator events
    // ------------------------------------------------------------------------

    pub fn process_events(&mut self) {
        let events = seam::take_events();
        let end_ms = self.w.now_ms;
        for (at, ev) in events {
            self.w.now_ms = (self.w.lifetime_base_ms + at).min(end_ms);
            match ev {
                PluginEvent::Stdout(b) => {
                    self.out_buf.extend_from_slice(&b);
                    while let Some(pos) = find_sep(&self.out_buf) {
                        let msg: Vec<u8> = self.out_buf.drain(..pos + 2).collect();
                        let body = &msg[..msg.len() - 2];
                        self.stats.stdout_msgs += 1;
                        match serde_json::from_slice::<Value>(body) {
                            Ok(v) if v.is_object() => self.on_plugin_msg(v),
                            _ => {
                                self.or.violate(
                                    &self.w,
                                    "C17",
                                    "stdout-not-json",
                                    format!(
                                        "plugin wrote bytes that are not one JSON object before a blank line: {:?}",
                                        String::from_utf8_lossy(&body[..body.len().min(120)])
                                    ),
                                );
                            }
                        }
                    }
                }
                PluginEvent::Rpc { id, method, params } => {
                    self.log.str("rpc");
                    self.log.str(&method);
                    self.log.str(&params.to_string());
                    let now = self.w.now_ms;
                    let idx = self.w.node.register_rpc(id, &method, params, now);
                    self.trace.str(&method);
                    self.trace
                        .u64(Self::hash_ix_of(&self.w.node.rpcs[idx].hash) as u64);
                    note!(
                        self,
                        "RPC#{} {} {}",
                        self.w.node.rpcs[idx].id,
                        method,
                        truncate(&self.w.node.rpcs[idx].params.to_string(), 200)
                    );
                    self.or.on_rpc_issued(&self.w, idx);
                }
                PluginEvent::Panic(m) => {
                    self.log.str("panic");
                    note!(self, "PANIC {}", m);
                    self.or.on_panic(&self.w, &m);
                }
                PluginEvent::Notification {
                    destination,
                    payment_hash,
                    invoice,
                } => {
                    self.log.str("notify-failed");
                    self.or
                        .on_notification(&self.w, &destination, &payment_hash, &invoice);
                }
                PluginEvent::MainReturned(r) => {
                    self.log.str("main-returned");
                    note!(self, "MAIN RETURNED {:?}", r);
                    if self.w.init_acked && self.w.cfg.mode == "process" {
                        let held = self.w.node.held_calls().count();
                        let detail = format!(
                            "the plugin's main() returned ({:?}) although its input was never closed; {} hook calls were still unanswered",
                            r, held
                        );
                        self.or.violate(&self.w, "C17", "io-loop-ended", detail.clone());
                        self.or.violate(&self.w, "C06", "plugin-exited", detail);
                    }
                    self.w.main_result = Some(r);
                    self.w.plugin_up = false;
                }
                PluginEvent::Component(label, v) => {
                    self.log.str("component");
                    self.log.str(&label);
                    self.log.str(&v.to_string());
                    note!(self, "COMPONENT {} {}", label, v);
                    if label == "wait_payment" || label == "pay" || label == "start-failed" {
                        self.w.main_result = Some(Ok(()));
                        self.w.plugin_up = false;
                    }
                    self.or.on_component(&self.w, &label, &v);
                }
            }
        }
        self.w.now_ms = end_ms;
    }

    fn on_plugin_msg(&mut self, v: Value) {
        let id = v.get("id").cloned();
        match id {
            None | Some(Value::Null) => {
                // Notification from the plugin: only `log` is expected.
                let m = v.get("method").and_then(|m| m.as_str()).unwrap_or("");
                if m == "log" {
                    self.stats.log_msgs += 1;
                    let level = v
                        .pointer("/params/level")
                        .and_then(|l| l.as_str())
                        .unwrap_or("?");
                    let okmsg = v
                        .pointer("/params/message")
                        .map(|m| m.is_string())
                        .unwrap_or(false);
                    self.log.str("log");
                    self.log.str(level);
                    if !okmsg || !["debug", "info", "warn", "error"].contains(&level) {
                        self.or.violate(
                            &self.w,
                            "C17",
                            "log-malformed",
                            format!("malformed log notification {}", truncate(&v.to_string(), 160)),
                        );
                    }
                } else {
                    self.or.violate(
                        &self.w,
                        "C17",
                        "unexpected-notification",
                        format!("unexpected message without id: {}", truncate(&v.to_string(), 160)),
                    );
                }
            }
            Some(Value::String(id)) => {
                if id.starts_with("hs:manifest:") {
                    self.log.str("manifest");
                    let mut names: Vec<String> = v
                        .pointer("/result/options")
                        .and_then(|o| o.as_array())
                        .map(|a| {
                            a.iter()
                                .filter_map(|o| o.get("name").and_then(|n| n.as_str()))
                                .map(|s| s.to_string())
                                .collect()
                        })
                        .unwrap_or_default();
                    names.sort();
                    for n in names {
                        self.log.str(&n);
                    }
                    self.dynamic_options = v
                        .pointer("/result/options")
                        .and_then(|o| o.as_array())
                        .map(|a| {
                            a.iter()
                                .filter(|o| o.get("dynamic").and_then(|d| d.as_bool()) == Some(true))
                                .filter_map(|o| o.get("name").and_then(|n| n.as_str()))
                                .map(|s| s.to_string())
                                .collect()
                        })
                        .unwrap_or_default();
                    self.or.on_manifest(&self.w, &v);
                } else if id.starts_with("hs:setconfig:") {
                    self.log.str("setconfig-reply");
                    self.setconfig_pending = false;
                } else if id.starts_with("hs:init:") {
                    self.log.str("init-ack");
                    self.w.init_acked = true;
                    note!(self, "INIT ACK");
                } else if let Some(ci) = self
                    .w
                    .node
                    .calls
                    .iter()
                    .position(|c| c.call_id == id && c.lifetime == self.w.node.lifetime)
                {
                    self.on_hook_reply(ci, &v);
                } else {
                    self.or.violate(
                        &self.w,
                        "C17",
                        "unknown-id",
                        format!("reply with an id no request carried: {}", id),
                    );
                }
            }
            Some(other) => {
                let key = id_key(&other);
                if let Some(ci) = self
                    .w
                    .node
                    .calls
                    .iter()
                    .position(|c| c.call_id == key && c.lifetime == self.w.node.lifetime)
                {
                    self.on_hook_reply(ci, &v);
                } else {
                    self.or.violate(
                        &self.w,
                        "C17",
                        "unknown-id",
                        format!("reply with an id no request carried: {}", other),
                    );
                }
            }
        }
    }

    fn on_hook_reply(&mut self, ci: usize, v: &Value) {
        let ans = parse_answer(v);
        self.log.str("answer");
        self.log.str(&self.w.node.calls[ci].call_id.clone());
        self.log.str(&format!("{:?}", ans));
        self.trace.str(ans.kind());
        note!(
            self,
            "ANSWER {} (htlc {}, {}) {}",
            self.w.node.calls[ci].call_id,
            self.w.node.calls[ci].hid,
            self.w.node.htlcs[self.w.node.calls[ci].hid as usize].spec.tag,
            short_answer(&ans)
        );
        let k = match ans {
            Answer::Continue(_) => 0,
            Answer::Fail(_) => 1,
            Answer::Resolve(_) => 2,
            Answer::RpcError(_) => 3,
            Answer::Malformed(_) => 4,
        };
        self.stats.answers[k] += 1;
        if self.w.node.calls[ci].answer.is_some() {
            self.w.node.calls[ci].extra_answers += 1;
            self.or.violate(
                &self.w,
                "C17",
                "duplicate-reply",
                format!(
                    "a second reply carrying id {} was written",
                    self.w.node.calls[ci].call_id
                ),
            );
            self.or.violate(
                &self.w,
                "C06",
                "answered-twice",
                format!(
                    "hook call {} received a second reply",
                    self.w.node.calls[ci].call_id
                ),
            );
            return;
        }
        if self.w.node.calls[ci].delivered_step.is_none() {
            self.or.violate(
                &self.w,
                "C17",
                "answer-before-request-complete",
                format!(
                    "hook call {} was answered before its last byte was readable",
                    self.w.node.calls[ci].call_id
                ),
            );
        }
        let step = self.w.step;
        let now = self.w.now_ms;
        {
            let c = &mut self.w.node.calls[ci];
            c.answer = Some(ans.clone());
            c.answered_step = Some(step);
            c.answered_at_ms = Some(now);
        }
        let hid = self.w.node.calls[ci].hid;
        {
            let h = &mut self.w.node.htlcs[hid as usize];
            h.state = HtlcState::Gone;
            h.final_answer = Some(ans);
        }
        self.or.on_answer(&self.w, ci);
    }
}

pub fn find_sep(b: &[u8]) -> Option<usize> {
    b.windows(2).position(|w| w == b"\n\n")
}

/// htlc.payment_hash as it goes on the wire (see HtlcSpec::hash_len).
pub fn wire_hash_hex(h: &[u8; 32], len: u8) -> String {
    if len <= 32 {
        rf::hex(&h[..len as usize])
    } else {
        let mut v = h.to_vec();
        v.push(0x5a);
        rf::hex(&v)
    }
}

pub fn id_key(id: &Value) -> String {
    match id {
        Value::String(s) => s.clone(),
        other => format!("#json:{}", other),
    }
}

fn parse_answer(v: &Value) -> Answer {
    if let Some(e) = v.get("error") {
        return Answer::RpcError(e.clone());
    }
    let r = match v.get("result") {
        Some(r) => r,
        None => return Answer::Malformed(v.clone()),
    };
    let hexfield = |name: &str| -> Option<Vec<u8>> {
        r.get(name).and_then(|x| x.as_str()).and_then(rf::unhex)
    };
    match r.get("result").and_then(|x| x.as_str()) {
        Some("continue") => match r.get("payload") {
            None => Answer::Continue(None),
            Some(_) => match hexfield("payload") {
                Some(p) => Answer::Continue(Some(p)),
                None => Answer::Malformed(r.clone()),
            },
        },
        Some("fail") => match hexfield("failure_message") {
            Some(m) => Answer::Fail(m),
            None => Answer::Malformed(r.clone()),
        },
        Some("resolve") => match hexfield("payment_key") {
            Some(k) => Answer::Resolve(k),
            None => Answer::Malformed(r.clone()),
        },
        _ => Answer::Malformed(r.clone()),
    }
}

pub fn truncate(s: &str, n: usize) -> String {
    if s.len() <= n {
        s.to_string()
    } else {
        let mut e = n;
        while !s.is_char_boundary(e) {
            e -= 1;
        }
        format!("{}...", &s[..e])
    }
}

fn short_state(s: &RpcState) -> String {
    match s {
        RpcState::Issued => "issued".into(),
        RpcState::WaitingPart(p) => format!("waiting part {}", p),
        RpcState::WaitingCmd(c) => format!("waiting cmd {}", c),
        RpcState::ReplyReady(r) => match r {
            SimReply::Result(v) => format!("result {}", truncate(&v.to_string(), 120)),
            SimReply::Error { code, message, .. } => format!("error {:?} {}", code, message),
            SimReply::Transport(m) => format!("transport {}", m),
            SimReply::Codeless(m) => format!("codeless-error {}", m),
        },
        RpcState::Done => "done".into(),
    }
}

pub fn short_answer(a: &Answer) -> String {
    match a {
        Answer::Continue(None) => "continue".into(),
        Answer::Continue(Some(p)) => format!("continue payload={}", truncate(&rf::hex(p), 40)),
        Answer::Fail(m) => format!("fail {}", rf::hex(m)),
        Answer::Resolve(k) => format!("resolve {}", rf::hex(k)),
        Answer::RpcError(e) => format!("rpc-error {}", truncate(&e.to_string(), 120)),
        Answer::Malformed(e) => format!("malformed {}", truncate(&e.to_string(), 120)),
    }
}
