//! Everything the guarded hooks in /repo call (DESIGN.md 3.2). All state is
//! thread-local: one simulation = one OS thread = one `current_thread` tokio
//! runtime, so plugin tasks and the simulator driver share this context
//! without locks and without crossing threads.

use std::cell::RefCell;
use std::collections::{HashMap, VecDeque};
use std::pin::Pin;
use std::sync::{Arc, Weak};
use std::task::{Context, Poll, Waker};

use serde::de::DeserializeOwned;
use serde::Serialize;
use serde_json::Value;

// ---------------------------------------------------------------------------
// Events produced by the plugin side, consumed by the simulator after settle.
// ---------------------------------------------------------------------------

#[derive(Debug)]
pub enum PluginEvent {
    /// Bytes accepted by the simulated stdout.
    Stdout(Vec<u8>),
    /// The plugin issued an RPC (it is now outstanding).
    Rpc { id: u64, method: String, params: Value },
    /// A panic happened on this thread (message, location).
    Panic(String),
    /// `notify_payment_failed` was invoked (H7).
    Notification {
        destination: String,
        payment_hash: String,
        invoice: String,
    },
    /// `main()` returned.
    MainReturned(Result<(), String>),
    /// A component-engine future returned (E2): free-form label + payload.
    Component(String, Value),
}

/// What the simulator hands back for an RPC.
#[derive(Debug, Clone)]
pub enum SimReply {
    /// JSON `result`.
    Result(Value),
    /// JSON-RPC `error` object as lightningd sends it.
    Error {
        code: Option<i32>,
        message: String,
        data: Option<Value>,
    },
    /// The unix socket could not be connected / died before a reply was read.
    Transport(String),
    /// A reply arrived but could not be read / parsed: cln_rpc reports an RPC
    /// error without code.
    Codeless(String),
}

pub struct StdinPipe {
    pub data: VecDeque<u8>,
    /// Number of bytes at the front of `data` the reader may take.
    pub released: usize,
    /// Upper bound on bytes handed over per `poll_read`.
    pub read_max: usize,
    pub eof: bool,
    pub waker: Option<Waker>,
    pub reads: u64,
}

pub struct StdoutPipe {
    /// Bytes the writer may still push before it sees `Pending`
    /// (back-pressure). `usize::MAX` = unlimited.
    pub budget: usize,
    /// Upper bound per `poll_write` (short writes).
    pub write_max: usize,
    pub waker: Option<Waker>,
    pub pending_returns: u64,
    pub short_writes: u64,
}

pub struct WallClock {
    /// Nanoseconds since the unix epoch at virtual time zero of this lifetime.
    pub base_ns: u128,
    pub origin: Option<tokio::time::Instant>,
    /// Injected skew (clock jumps), nanoseconds, may be negative.
    pub skew_ns: i128,
    pub last_ns: u128,
    pub reads: u64,
}

pub struct Ctx {
    pub seq: u64,
    pub events: Vec<(u64, PluginEvent)>,
    pub stdin: StdinPipe,
    pub stdout: StdoutPipe,
    pub next_rpc_id: u64,
    /// RPC calls issued since the simulator last drained the events; beyond
    /// RPC_STEP_CAP further calls park forever and the run is abandoned
    /// (guards the simulator's memory against request storms).
    pub rpc_calls_step: u64,
    pub rpc_cap_hit: bool,
    pub rpc_waiters: HashMap<u64, tokio::sync::oneshot::Sender<SimReply>>,
    pub wall: WallClock,
    pub log_enabled: bool,
    pub tracing_guard: Option<tracing::subscriber::DefaultGuard>,
    pub table_len: Option<Box<dyn Fn() -> Option<usize>>>,
    pub panics: u64,
    /// Yield injection at async mutex acquisition (vendor/tokio verif_hook):
    /// per mille chance and its own PRNG state (xorshift64*).
    pub yield_permille: u32,
    pub yield_state: u64,
    pub yields: u64,
    /// Late observation of elapsed sleeps (vendor/tokio verif_hook::set_late).
    pub late_permille: u32,
    pub late_state: u64,
    pub lates: u64,
    /// E2: commands from the simulator to the component under test.
    pub comp_tx: Option<::tokio::sync::mpsc::UnboundedSender<(String, u64)>>,
}

impl Ctx {
    /// Virtual milliseconds since this lifetime's origin.
    pub fn rel_ms(&self) -> u64 {
        match self.wall.origin {
            Some(o) => ::tokio::time::Instant::now()
                .saturating_duration_since(o)
                .as_millis() as u64,
            None => 0,
        }
    }

    pub fn push(&mut self, ev: PluginEvent) {
        self.seq += 1;
        let at = self.rel_ms();
        self.events.push((at, ev));
    }

    pub fn new() -> Self {
        Ctx {
            seq: 0,
            events: Vec::new(),
            stdin: StdinPipe {
                data: VecDeque::new(),
                released: 0,
                read_max: usize::MAX,
                eof: false,
                waker: None,
                reads: 0,
            },
            stdout: StdoutPipe {
                budget: usize::MAX,
                write_max: usize::MAX,
                waker: None,
                pending_returns: 0,
                short_writes: 0,
            },
            next_rpc_id: 1,
            rpc_calls_step: 0,
            rpc_cap_hit: false,
            rpc_waiters: HashMap::new(),
            wall: WallClock {
                base_ns: 1_700_000_000u128 * 1_000_000_000,
                origin: None,
                skew_ns: 0,
                last_ns: 0,
                reads: 0,
            },
            log_enabled: false,
            tracing_guard: None,
            table_len: None,
            panics: 0,
            yield_permille: 0,
            yield_state: 0x9E37_79B9_7F4A_7C15,
            yields: 0,
            late_permille: 0,
            late_state: 1,
            lates: 0,
            comp_tx: None,
        }
    }
}

thread_local! {
    static CTX: RefCell<Option<Ctx>> = const { RefCell::new(None) };
}

pub fn install(ctx: Ctx) {
    CTX.with(|c| *c.borrow_mut() = Some(ctx));
}

pub fn uninstall() -> Option<Ctx> {
    CTX.with(|c| c.borrow_mut().take())
}

pub fn installed() -> bool {
    CTX.with(|c| c.borrow().is_some())
}

pub fn with<T>(f: impl FnOnce(&mut Ctx) -> T) -> T {
    CTX.with(|c| {
        let mut b = c.borrow_mut();
        let ctx = b
            .as_mut()
            .expect("verif seam used outside a simulation (no context installed on this thread)");
        f(ctx)
    })
}

pub fn try_with<T>(f: impl FnOnce(&mut Ctx) -> T) -> Option<T> {
    CTX.with(|c| match c.try_borrow_mut() {
        Ok(mut b) => b.as_mut().map(f),
        Err(_) => None,
    })
}

// ---------------------------------------------------------------------------
// H2: stdin / stdout
// ---------------------------------------------------------------------------

pub struct Stdin;
pub struct Stdout;

/// Shim that shadows the extern-prelude name `tokio` inside `plugin::init()`.
pub mod tokio {
    pub use ::tokio::*;
    pub mod io {
        pub use ::tokio::io::*;
        pub fn stdin() -> super::super::Stdin {
            super::super::Stdin
        }
        pub fn stdout() -> super::super::Stdout {
            super::super::Stdout
        }
    }
}

impl ::tokio::io::AsyncRead for Stdin {
    fn poll_read(
        self: Pin<&mut Self>,
        cx: &mut Context<'_>,
        buf: &mut ::tokio::io::ReadBuf<'_>,
    ) -> Poll<std::io::Result<()>> {
        with(|c| {
            let p = &mut c.stdin;
            let n = p.released.min(buf.remaining()).min(p.read_max);
            if n > 0 {
                let (a, b) = p.data.as_slices();
                if a.len() >= n {
                    buf.put_slice(&a[..n]);
                } else {
                    buf.put_slice(a);
                    buf.put_slice(&b[..n - a.len()]);
                }
                p.data.drain(..n);
                p.released -= n;
                p.reads += 1;
                Poll::Ready(Ok(()))
            } else if p.eof {
                Poll::Ready(Ok(()))
            } else {
                p.waker = Some(cx.waker().clone());
                Poll::Pending
            }
        })
    }
}

impl ::tokio::io::AsyncWrite for Stdout {
    fn poll_write(
        self: Pin<&mut Self>,
        cx: &mut Context<'_>,
        buf: &[u8],
    ) -> Poll<std::io::Result<usize>> {
        with(|c| {
            if buf.is_empty() {
                return Poll::Ready(Ok(0));
            }
            let n = buf.len().min(c.stdout.budget).min(c.stdout.write_max);
            if n == 0 {
                c.stdout.waker = Some(cx.waker().clone());
                c.stdout.pending_returns += 1;
                return Poll::Pending;
            }
            if n < buf.len() {
                c.stdout.short_writes += 1;
            }
            if c.stdout.budget != usize::MAX {
                c.stdout.budget -= n;
            }
            c.push(PluginEvent::Stdout(buf[..n].to_vec()));
            Poll::Ready(Ok(n))
        })
    }

    fn poll_flush(self: Pin<&mut Self>, _cx: &mut Context<'_>) -> Poll<std::io::Result<()>> {
        Poll::Ready(Ok(()))
    }

    fn poll_shutdown(self: Pin<&mut Self>, _cx: &mut Context<'_>) -> Poll<std::io::Result<()>> {
        Poll::Ready(Ok(()))
    }
}

/// Simulator side: append bytes to the plugin's stdin. `release` of them are
/// readable at once (the rest needs `stdin_release`).
pub fn stdin_push(bytes: &[u8], release: usize) {
    let w = with(|c| {
        c.stdin.data.extend(bytes.iter().copied());
        c.stdin.released = c.stdin.released.saturating_add(release).min(c.stdin.data.len());
        if c.stdin.released > 0 {
            c.stdin.waker.take()
        } else {
            None
        }
    });
    if let Some(w) = w {
        w.wake();
    }
}

pub fn stdin_release(n: usize) {
    let w = with(|c| {
        c.stdin.released = c.stdin.released.saturating_add(n).min(c.stdin.data.len());
        if c.stdin.released > 0 {
            c.stdin.waker.take()
        } else {
            None
        }
    });
    if let Some(w) = w {
        w.wake();
    }
}

pub fn stdin_unreleased() -> usize {
    with(|c| c.stdin.data.len() - c.stdin.released)
}

pub fn stdin_close() {
    let w = with(|c| {
        c.stdin.eof = true;
        c.stdin.released = c.stdin.data.len();
        c.stdin.waker.take()
    });
    if let Some(w) = w {
        w.wake();
    }
}

pub fn stdout_grant(budget: usize) {
    let w = with(|c| {
        c.stdout.budget = budget;
        if budget > 0 {
            c.stdout.waker.take()
        } else {
            None
        }
    });
    if let Some(w) = w {
        w.wake();
    }
}

// ---------------------------------------------------------------------------
// H3: RPC
// ---------------------------------------------------------------------------

/// Stand-in for `cln_rpc::ClnRpc::call_typed` below the `Rpc` wrapper: the
/// request is serialised exactly as `call_raw` does (`method()` +
/// `serde_json::to_value(params)`), handed to the simulator, and the reply is
/// deserialised into the typed response with the same error mapping.
pub async fn rpc_call<R>(_rpc_file: &str, request: &R) -> Result<R::Response, crate::rpc::RpcError>
where
    R: cln_rpc::model::TypedRequest + Serialize + std::fmt::Debug + Sync,
    R::Response: DeserializeOwned + std::fmt::Debug,
{
    let method = request.method().to_string();
    let params = serde_json::to_value(request).expect("request serialises");
    let rx = with(|c| {
        c.rpc_calls_step += 1;
        if c.rpc_calls_step > RPC_STEP_CAP {
            c.rpc_cap_hit = true;
            return None;
        }
        let id = c.next_rpc_id;
        c.next_rpc_id += 1;
        let (tx, rx) = ::tokio::sync::oneshot::channel();
        c.rpc_waiters.insert(id, tx);
        c.push(PluginEvent::Rpc { id, method, params });
        Some(rx)
    });
    let rx = match rx {
        Some(rx) => rx,
        None => {
            ::std::future::pending::<()>().await;
            unreachable!()
        }
    };
    match rx.await {
        Ok(SimReply::Result(v)) => serde_json::from_value::<R::Response>(v).map_err(|e| {
            crate::rpc::RpcError::Rpc(cln_rpc::RpcError {
                code: None,
                message: format!("Failed to parse response {:?}", e),
                data: None,
            })
        }),
        Ok(SimReply::Error {
            code,
            message,
            data,
        }) => Err(crate::rpc::RpcError::Rpc(cln_rpc::RpcError {
            code,
            message,
            data,
        })),
        Ok(SimReply::Transport(m)) => Err(crate::rpc::RpcError::General(anyhow::anyhow!(m))),
        Ok(SimReply::Codeless(m)) => Err(crate::rpc::RpcError::Rpc(cln_rpc::RpcError {
            code: None,
            message: m,
            data: None,
        })),
        Err(_) => Err(crate::rpc::RpcError::General(anyhow::anyhow!(
            "simulated connection dropped"
        ))),
    }
}

/// More RPC calls than this between two drains of the event queue (one
/// scheduler step) cannot be a reaction to simulator stimuli: every reply needs
/// a step of its own.
pub const RPC_STEP_CAP: u64 = 20_000;

/// Simulator side: deliver a reply. Returns false if the waiter is gone.
pub fn rpc_reply(id: u64, reply: SimReply) -> bool {
    let tx = with(|c| c.rpc_waiters.remove(&id));
    match tx {
        Some(tx) => tx.send(reply).is_ok(),
        None => false,
    }
}

// ---------------------------------------------------------------------------
// H4: wall clock
// ---------------------------------------------------------------------------

/// Shim for `std` inside functions that call `std::time::SystemTime::now()`.
pub mod std {
    pub use ::std::*;
    pub mod time {
        pub use ::std::time::*;
        #[allow(non_snake_case)]
        pub mod SystemTime {
            pub fn now() -> ::std::time::SystemTime {
                super::super::super::SystemTime::now()
            }
        }
    }
}

/// Shim for a bare `SystemTime` identifier (`payment_provider.rs`).
pub struct SystemTime;

impl SystemTime {
    pub fn now() -> ::std::time::SystemTime {
        let ns = with(|c| {
            let w = &mut c.wall;
            let elapsed = match w.origin {
                Some(o) => ::tokio::time::Instant::now()
                    .saturating_duration_since(o)
                    .as_nanos(),
                None => 0,
            };
            let mut ns = (w.base_ns as i128 + elapsed as i128 + w.skew_ns).max(1) as u128;
            // Two reads never return the same nanosecond unless the clock was
            // set back in between (as on real hardware).
            if w.skew_ns >= 0 && ns <= w.last_ns && w.last_ns - ns < 1_000_000 {
                ns = w.last_ns + 1;
            }
            w.last_ns = ns;
            w.reads += 1;
            ns
        });
        ::std::time::UNIX_EPOCH
            + ::std::time::Duration::new((ns / 1_000_000_000) as u64, (ns % 1_000_000_000) as u32)
    }
}

// ---------------------------------------------------------------------------
// H5: tracing subscriber per simulated process
// ---------------------------------------------------------------------------

pub fn install_subscriber(
    sub: Box<dyn tracing::Subscriber + Send + Sync + 'static>,
) -> Result<(), anyhow::Error> {
    with(|c| {
        if c.log_enabled {
            // Drop a previous guard first (previous simulated process).
            c.tracing_guard = None;
            c.tracing_guard = Some(tracing::subscriber::set_default(sub));
        }
    });
    Ok(())
}

pub fn drop_subscriber() {
    let g = try_with(|c| c.tracing_guard.take());
    drop(g);
}

// ---------------------------------------------------------------------------
// H6 / H7 observers
// ---------------------------------------------------------------------------

pub fn observe_table<K: 'static, V: 'static>(
    table: &Arc<::tokio::sync::Mutex<HashMap<K, V>>>,
) {
    with(|c| {
        if c.table_len.is_none() {
            let weak: Weak<::tokio::sync::Mutex<HashMap<K, V>>> = Arc::downgrade(table);
            c.table_len = Some(Box::new(move || {
                weak.upgrade()
                    .and_then(|t| t.try_lock().ok().map(|g| g.len()))
            }));
        }
    });
}

/// Number of entries in the HtlcManager table, if it exists and is unlocked.
pub fn table_len() -> Option<usize> {
    // Take the closure out while calling so no RefCell borrow is held.
    let f = with(|c| c.table_len.take());
    let r = f.as_ref().and_then(|f| f());
    with(|c| {
        if c.table_len.is_none() {
            c.table_len = f;
        }
    });
    r
}

pub fn observe_notification(req: &crate::email::NotifyPaymentFailedRequest) {
    with(|c| {
        c.push(PluginEvent::Notification {
            destination: req.destination.to_string(),
            payment_hash: req.payment_hash.to_string(),
            invoice: req.invoice.clone(),
        });
    });
}

// ---------------------------------------------------------------------------
// Panic capture (process-wide hook, thread-local record)
// ---------------------------------------------------------------------------

pub fn install_panic_hook() {
    let prev = ::std::panic::take_hook();
    ::std::panic::set_hook(Box::new(move |info| {
        let msg = if let Some(s) = info.payload().downcast_ref::<&str>() {
            (*s).to_string()
        } else if let Some(s) = info.payload().downcast_ref::<String>() {
            s.clone()
        } else {
            String::from("<non-string panic payload>")
        };
        let loc = info
            .location()
            .map(|l| format!("{}:{}", l.file(), l.line()))
            .unwrap_or_default();
        if ::std::env::var_os("VERIF_DEBUG_PANIC").is_some() {
            eprintln!("PANIC: {} @ {}", msg, loc);
        }
        let recorded = try_with(|c| {
            c.panics += 1;
            c.push(PluginEvent::Panic(format!("{} @ {}", msg, loc)));
        });
        if recorded.is_none() {
            // Not inside a simulation (harness bug): behave as usual.
            prev(info);
        }
    }));
}

pub fn rpc_cap_hit() -> bool {
    with(|c| c.rpc_cap_hit)
}

pub fn take_events() -> Vec<(u64, PluginEvent)> {
    with(|c| {
        c.rpc_calls_step = 0;
        ::std::mem::take(&mut c.events)
    })
}

pub fn push_event(ev: PluginEvent) {
    with(|c| c.push(ev));
}

pub fn comp_send(cmd: &str, arg: u64) -> bool {
    with(|c| match &c.comp_tx {
        Some(tx) => tx.send((cmd.to_string(), arg)).is_ok(),
        None => false,
    })
}

// ---------------------------------------------------------------------------
// Determinism of `tracing` across threads
// ---------------------------------------------------------------------------

/// tracing caches per-callsite "interest" in process-global state, computed
/// from the dispatchers alive at the moment a callsite is first hit (with a
/// fast path that consults only the *current thread's* default while a single
/// dispatcher exists). With per-thread subscribers that makes whether a log
/// event is emitted on thread A depend on what thread B is doing. Two
/// permanent dispatchers that are interested in everything (and are nobody's
/// default) pin every callsite to "enabled": each event is then decided by the
/// emitting thread's own default subscriber only.
struct AlwaysInterested;

impl tracing::Subscriber for AlwaysInterested {
    fn register_callsite(&self, _m: &'static tracing::Metadata<'static>) -> tracing::subscriber::Interest {
        tracing::subscriber::Interest::always()
    }
    fn enabled(&self, _m: &tracing::Metadata<'_>) -> bool {
        true
    }
    fn max_level_hint(&self) -> Option<tracing::level_filters::LevelFilter> {
        Some(tracing::level_filters::LevelFilter::TRACE)
    }
    fn new_span(&self, _s: &tracing::span::Attributes<'_>) -> tracing::span::Id {
        tracing::span::Id::from_u64(1)
    }
    fn record(&self, _s: &tracing::span::Id, _v: &tracing::span::Record<'_>) {}
    fn record_follows_from(&self, _s: &tracing::span::Id, _f: &tracing::span::Id) {}
    fn event(&self, _e: &tracing::Event<'_>) {}
    fn enter(&self, _s: &tracing::span::Id) {}
    fn exit(&self, _s: &tracing::span::Id) {}
}

pub fn pin_tracing_interest() {
    static KEEP: ::std::sync::OnceLock<(tracing::Dispatch, tracing::Dispatch)> = ::std::sync::OnceLock::new();
    KEEP.get_or_init(|| {
        (
            tracing::Dispatch::new(AlwaysInterested),
            tracing::Dispatch::new(AlwaysInterested),
        )
    });
}

/// The yield oracle installed into tokio's `verif_hook`: a seeded coin.
pub fn yield_coin() -> bool {
    try_with(|c| {
        if c.yield_permille == 0 {
            return false;
        }
        let mut x = c.yield_state;
        x ^= x >> 12;
        x ^= x << 25;
        x ^= x >> 27;
        c.yield_state = x;
        let r = x.wrapping_mul(0x2545_F491_4F6C_DD1D) >> 33;
        let y = (r % 1000) < c.yield_permille as u64;
        if y {
            c.yields += 1;
        }
        y
    })
    .unwrap_or(false)
}

/// The late-timer oracle installed into tokio's `verif_hook`: a seeded coin of
/// its own. At most a few times in a row (the coin is fair game each time, but
/// a permille below 1000 ends the streak).
pub fn late_coin() -> bool {
    try_with(|c| {
        if c.late_permille == 0 {
            return false;
        }
        let mut x = c.late_state;
        x ^= x >> 12;
        x ^= x << 25;
        x ^= x >> 27;
        c.late_state = x;
        let r = x.wrapping_mul(0x2545_F491_4F6C_DD1D) >> 33;
        let y = (r % 1000) < c.late_permille as u64;
        if y {
            c.lates += 1;
        }
        y
    })
    .unwrap_or(false)
}
