//! Dedicated engines: E2 component checks (C15, C16, C20), configuration
//! probes (C19), systematic sweeps (C08, C09).

use super::replay::{FindingsFile, ReplayFile};

pub fn check_special(_prop: &str, _tier: &str, _seed: u64, _findings: &FindingsFile) -> Option<i32> {
    None
}

pub fn replay_special(_rf: &ReplayFile, _dump: bool) -> i32 {
    2
}
