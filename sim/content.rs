//! Workload content: invoice pool, HTLC / metadata generators, run
//! configuration (swarm). Everything here is a pure function of the content
//! seed and indices (DESIGN.md 4.2, 4.5).

use std::str::FromStr;
use std::sync::OnceLock;

use lightning_invoice::{
    Currency, InvoiceBuilder, PaymentSecret, RouteHint, RouteHintHop, RoutingFees,
};
use secp256k1::hashes::{sha256, Hash as _};
use secp256k1::{PublicKey, Secp256k1, SecretKey};
use serde::{Deserialize, Serialize};

use super::reference::{encode_tlv, tu64_min, with_length_prefix, H32};
use super::rng::Rng;

pub const NH: usize = 8;

#[derive(Clone, Copy, Debug, PartialEq, Eq)]
pub enum InvKind {
    Fixed,
    Amountless,
    SelfHint,
    OtherHint,
    /// Explicit payee key in the invoice, signed by a different key.
    BadSig,
    /// A second, different invoice for the same hash.
    Alt,
    /// Explicit payee key, correctly signed.
    ExplicitPayee,
    /// Two route hints: the first ends at the local node, the second elsewhere.
    MixedHintSelfFirst,
    /// Two route hints: the first ends elsewhere, the second at the local node.
    MixedHintSelfLast,
    /// A different invoice for the same hash with the SAME amount and payee
    /// (other description).
    AltSameAmount,
    /// A route hint (`r` field) without any hop.
    EmptyHint,
}

pub const KINDS: [InvKind; 11] = [
    InvKind::Fixed,
    InvKind::Amountless,
    InvKind::SelfHint,
    InvKind::OtherHint,
    InvKind::BadSig,
    InvKind::Alt,
    InvKind::ExplicitPayee,
    InvKind::MixedHintSelfFirst,
    InvKind::MixedHintSelfLast,
    InvKind::AltSameAmount,
    InvKind::EmptyHint,
];

pub struct Inv {
    pub bolt11: String,
    pub hash_ix: usize,
    pub amount: Option<u64>,
    pub kind: InvKind,
}

pub struct Pool {
    pub preimages: Vec<H32>,
    pub hashes: Vec<H32>,
    pub invs: Vec<Inv>,
    pub local_pubkey: PublicKey,
    pub other_pubkey: PublicKey,
    pub recipient_pubkey: PublicKey,
    pub fixed_amounts: [u64; NH],
}

impl Pool {
    pub fn inv(&self, hash_ix: usize, kind: InvKind) -> &Inv {
        self.invs
            .iter()
            .find(|i| i.hash_ix == hash_ix && i.kind == kind)
            .expect("pool complete")
    }
    pub fn hash_index(&self, h: &[u8]) -> Option<usize> {
        self.hashes.iter().position(|x| x[..] == h[..])
    }
}

fn key(last: u8) -> SecretKey {
    let mut k = [
        0xe1, 0x26, 0xf6, 0x8f, 0x7e, 0xaf, 0xcc, 0x8b, 0x74, 0xf5, 0x4d, 0x26, 0x9f, 0xe2, 0x06,
        0xbe, 0x71, 0x50, 0x00, 0xf9, 0x4d, 0xac, 0x06, 0x7d, 0x1c, 0x04, 0xa8, 0xca, 0x3b, 0x2d,
        0xb7, 0x00,
    ];
    k[31] = last;
    SecretKey::from_slice(&k).unwrap()
}

pub fn pool() -> &'static Pool {
    static POOL: OnceLock<Pool> = OnceLock::new();
    POOL.get_or_init(build_pool)
}

fn build_pool() -> Pool {
    let secp = Secp256k1::new();
    let local_sk = key(0x34);
    let recipient_sk = key(0x35);
    let other_sk = key(0x36);
    let local_pubkey = PublicKey::from_secret_key(&secp, &local_sk);
    let recipient_pubkey = PublicKey::from_secret_key(&secp, &recipient_sk);
    let other_pubkey = PublicKey::from_secret_key(&secp, &other_sk);
    let fixed_amounts: [u64; NH] = [
        1_000_000,
        1_000,
        250_000_000,
        4_000_000_000_000,
        2_000_000,
        50_000,
        777_000,
        30_000_000,
    ];
    let mut preimages = Vec::new();
    let mut hashes = Vec::new();
    for i in 0..NH {
        let mut p = [0u8; 32];
        for (j, b) in p.iter_mut().enumerate() {
            *b = (i as u8).wrapping_mul(37).wrapping_add(j as u8).wrapping_add(1);
        }
        hashes.push(sha256::Hash::hash(&p).to_byte_array());
        preimages.push(p);
    }
    let hint = |node: PublicKey| {
        RouteHint(vec![
            RouteHintHop {
                src_node_id: other_pubkey,
                short_channel_id: 7,
                fees: RoutingFees {
                    base_msat: 1,
                    proportional_millionths: 1,
                },
                cltv_expiry_delta: 40,
                htlc_minimum_msat: None,
                htlc_maximum_msat: None,
            },
            RouteHintHop {
                src_node_id: node,
                short_channel_id: 8,
                fees: RoutingFees {
                    base_msat: 1000,
                    proportional_millionths: 10,
                },
                cltv_expiry_delta: 80,
                htlc_minimum_msat: Some(1_000),
                htlc_maximum_msat: Some(1_000_000_000),
            },
        ])
    };
    let mut invs = Vec::new();
    for i in 0..NH {
        for kind in KINDS {
            let mut b = InvoiceBuilder::new(Currency::Regtest)
                .description(match kind {
                    InvKind::Alt => format!("alternative invoice {}", i),
                    InvKind::AltSameAmount => format!("same amount, other words {}", i),
                    _ => format!("trampoline this {}", i),
                })
                .payment_hash(sha256::Hash::from_byte_array(hashes[i]))
                .payment_secret(PaymentSecret([42u8; 32]))
                .timestamp(
                    std::time::SystemTime::UNIX_EPOCH
                        + std::time::Duration::from_secs(1_699_999_000),
                )
                .min_final_cltv_expiry_delta(18);
            let amount = match kind {
                InvKind::Amountless => None,
                InvKind::Alt => Some(fixed_amounts[i] + 1_000),
                _ => Some(fixed_amounts[i]),
            };
            if let Some(a) = amount {
                b = b.amount_milli_satoshis(a);
            }
            match kind {
                InvKind::SelfHint => b = b.private_route(hint(local_pubkey)),
                InvKind::OtherHint => b = b.private_route(hint(other_pubkey)),
                InvKind::EmptyHint => b = b.private_route(RouteHint(vec![])),
                InvKind::MixedHintSelfFirst => {
                    b = b.private_route(hint(local_pubkey)).private_route(hint(other_pubkey))
                }
                InvKind::MixedHintSelfLast => {
                    b = b.private_route(hint(other_pubkey)).private_route(hint(local_pubkey))
                }
                InvKind::BadSig | InvKind::ExplicitPayee => b = b.payee_pub_key(recipient_pubkey),
                _ => {}
            }
            let signer = match kind {
                InvKind::BadSig => other_sk,
                _ => recipient_sk,
            };
            let raw = b.build_raw().expect("invoice builds");
            let signed = raw
                .sign::<_, ()>(|h| Ok(secp.sign_ecdsa_recoverable(h, &signer)))
                .unwrap();
            invs.push(Inv {
                bolt11: signed.to_string(),
                hash_ix: i,
                amount,
                kind,
            });
        }
    }
    // Sanity: every kind except BadSig parses as a semantically valid invoice.
    for inv in &invs {
        let ok = lightning_invoice::Bolt11Invoice::from_str(&inv.bolt11).is_ok();
        assert_eq!(ok, inv.kind != InvKind::BadSig, "pool invoice {:?}", inv.kind);
    }
    Pool {
        preimages,
        hashes,
        invs,
        local_pubkey,
        other_pubkey,
        recipient_pubkey,
        fixed_amounts,
    }
}

// ---------------------------------------------------------------------------
// Run configuration
// ---------------------------------------------------------------------------

#[derive(Clone, Debug, Serialize, Deserialize, PartialEq)]
pub struct RunCfg {
    pub profile: String,
    // plugin options
    pub policy_base: u32,
    pub policy_ppm: u32,
    pub policy_delta: u16,
    pub cltv_delta: u16,
    pub mpp_timeout: u64,
    pub payment_timeout: u64,
    pub xpay: bool,
    pub no_self_hints: bool,
    pub log: bool,
    // environment
    pub start_height: u32,
    pub n_hashes: usize,
    pub max_sets: u32,
    pub max_parts: u32,
    pub max_ops: u32,
    pub max_lifetimes: u32,
    // fault switches (per mille per opportunity unless stated)
    pub f_crash: u32,
    pub f_rpc_write_fault: u32,
    pub f_rpc_read_fault: u32,
    pub f_rpc_delay: u32,
    pub f_rpc_reorder: u32,
    pub f_pay_bad_outcome: u32,
    pub f_part_fail: u32,
    pub f_hostile_waitsendpay: u32,
    pub f_outage: u32,
    pub f_clock_jump: u32,
    pub f_notify_drop: u32,
    pub f_getinfo_fail: u32,
    pub f_response_lost: u32,
    pub f_malformed: u32,
    pub f_undecodable: u32,
    pub f_mismatch_hash: u32,
    pub f_extreme_numbers: u32,
    pub f_reject_htlc: u32,
    pub f_nontrampoline: u32,
    pub f_underfund: u32,
    pub f_batch: u32,
    /// stdin chunking: 0 whole messages, 1 random chunks, 2 single bytes
    pub chunking: u8,
    /// stdout back-pressure / short writes
    pub backpressure: bool,
    /// recipients: per mille of parts that complete (vs. fail) when resolved
    pub recipient_coop: u32,
    /// freeze hash 0 at some point (C14)
    pub freeze: bool,
    /// number of hashes (0..n) that get frozen (0 = one)
    #[serde(default)]
    pub freeze_n: u8,
    /// the freeze only stalls the outgoing payment (parts, pay command)
    #[serde(default)]
    pub freeze_soft: bool,
    /// crash once all hashes to be stalled are stalled and another payment is in flight
    #[serde(default)]
    pub crash_when_all_stalled: bool,
    /// crashes are biased into the window between answering the HTLCs and
    /// recording the outcome (restart profile)
    #[serde(default)]
    pub crash_in_bookkeeping_window: bool,
    /// What runs inside the simulated process: "process" (real main()),
    /// "wait_payment", "pay" (PayPaymentProvider directly), "watcher" (BlockWatcher).
    #[serde(default = "default_mode")]
    pub mode: String,
    /// C19: raw option values sent in `init` (name -> value); when absent the
    /// typed fields above are sent.
    #[serde(default)]
    pub raw_opts: Option<std::collections::BTreeMap<String, i64>>,
    /// Per mille chance that a newly issued bookkeeping write (mark_failed /
    /// mark_succeeded) is held back by the node for a long while ("old
    /// lifecycle still finishing its bookkeeping").
    #[serde(default)]
    pub f_stall: u32,
    /// Per mille of crashes after which the node stays down for hours or days.
    #[serde(default)]
    pub f_long_downtime: u32,
    /// Per mille chance that a task yields once before acquiring an async mutex
    /// (preemption between critical sections).
    #[serde(default)]
    pub f_yield: u32,
    /// Per mille chance that the scheduler executes two or three operations in
    /// one step (several replies / deliveries become runnable together).
    #[serde(default)]
    pub f_multi: u32,
    /// per mille: an elapsed sleep of a plugin task is observed one scheduling
    /// round later (so that whatever became runnable in the same instant runs first)
    #[serde(default)]
    pub f_timer_late: u32,
    /// pending / failed `pay` results carry a (placeholder) payment_preimage so
    /// that they deserialise into the typed response; without it the plugin
    /// sees a code-less RPC error although the command ran.
    #[serde(default = "yes")]
    pub pay_placeholder: bool,
    /// injected RPC errors carry messages of several KiB of mixed-width UTF-8
    #[serde(default)]
    pub big_messages: bool,
    /// getinfo replies carry sync warnings
    #[serde(default)]
    pub sync_warnings: bool,
    /// shape of the JSON-RPC ids of hook calls: 0 "cln:htlc_accepted#n",
    /// 1 small integer, 2 integer above i64::MAX, 3 string with quotes,
    /// backslash and non-ASCII characters
    #[serde(default)]
    pub id_style: u8,
    /// C19: option values sent as raw JSON text (strings, floats, integers
    /// beyond i64) - all of them must make the plugin refuse to start.
    #[serde(default)]
    pub raw_json_opts: Option<std::collections::BTreeMap<String, String>>,
    /// wire profile: the first hook call is written in the same chunk as `init`.
    #[serde(default)]
    pub pipeline_init: bool,
    /// E2: number and states of parts that exist before the component is called
    /// (0 pending, 1 failed, 2 complete).
    #[serde(default)]
    pub pre_parts: Vec<u8>,
    /// E2 runs with many pre-existing parts: nine in ten of them fail
    #[serde(default)]
    pub many_parts_fail: bool,
}

fn yes() -> bool {
    true
}

fn default_mode() -> String {
    "process".into()
}

impl RunCfg {
    pub fn fault_free(&self) -> bool {
        self.f_crash == 0
            && self.f_rpc_write_fault == 0
            && self.f_rpc_read_fault == 0
            && self.f_outage == 0
            && self.f_clock_jump == 0
            && self.f_getinfo_fail == 0
            && self.f_hostile_waitsendpay == 0
    }
}

pub const POLICY_BASES: [u32; 6] = [0, 0, 1, 1000, 5_000_000, u32::MAX];
pub const POLICY_PPMS: [u32; 7] = [5000, 0, 1, 5000, 1_000_000, 999_999, u32::MAX];
pub const MPP_TIMEOUTS: [u64; 5] = [60, 1, 7, 600, 0];

/// Baseline configuration drawn from the content stream; profiles then adjust it.
pub fn base_cfg(rng: &mut Rng, profile: &str) -> RunCfg {
    let policy_delta: u16 = *rng.pick(&[1008u16, 144, 40, 35, 2016, 65535]);
    let cltv_delta: u16 = {
        let c = *rng.pick(&[34u16, 0, 1, 18, 143, 1007]);
        if c >= policy_delta {
            policy_delta - 1
        } else {
            c
        }
    };
    RunCfg {
        profile: profile.to_string(),
        policy_base: *rng.pick(&POLICY_BASES),
        policy_ppm: *rng.pick(&POLICY_PPMS),
        policy_delta,
        cltv_delta,
        mpp_timeout: *rng.pick(&MPP_TIMEOUTS[..4]),
        payment_timeout: *rng.pick(&[60u64, 1, 0, 65535, 65536, 100_000]),
        xpay: rng.chance(1, 3),
        no_self_hints: rng.chance(1, 2),
        log: rng.chance(1, 8),
        start_height: *rng.pick(&[100u32, 0, 800_000, 1, 4_000_000, 800_000, u32::MAX - 20, u32::MAX - 3000]),
        n_hashes: 1 + rng.below(2) as usize,
        max_sets: 2 + rng.below(3) as u32,
        max_parts: *rng.pick(&[1u32, 2, 3, 4, 8]),
        max_ops: 200,
        max_lifetimes: 4,
        f_crash: 0,
        f_rpc_write_fault: 0,
        f_rpc_read_fault: 0,
        f_rpc_delay: 0,
        f_rpc_reorder: 0,
        f_pay_bad_outcome: 0,
        f_part_fail: 0,
        f_hostile_waitsendpay: 0,
        f_outage: 0,
        f_clock_jump: 0,
        f_notify_drop: 0,
        f_getinfo_fail: 0,
        f_response_lost: 0,
        f_malformed: 0,
        f_undecodable: 0,
        f_mismatch_hash: 0,
        f_extreme_numbers: 0,
        f_reject_htlc: 0,
        f_nontrampoline: 0,
        f_underfund: 0,
        f_batch: 0,
        chunking: 0,
        backpressure: false,
        recipient_coop: 800,
        freeze: false,
        freeze_n: 0,
        freeze_soft: false,
        crash_when_all_stalled: false,
        crash_in_bookkeeping_window: false,
        mode: "process".into(),
        f_stall: 0,
        f_long_downtime: 0,
        f_yield: 0,
        f_multi: 0,
        f_timer_late: 0,
        pay_placeholder: true,
        big_messages: false,
        sync_warnings: false,
        id_style: 0,
        raw_json_opts: None,
        pipeline_init: false,
        raw_opts: None,
        pre_parts: Vec::new(),
        many_parts_fail: false,
    }
}

// ---------------------------------------------------------------------------
// HTLC specifications
// ---------------------------------------------------------------------------

#[derive(Clone, Debug)]
pub struct HtlcSpec {
    /// Hash index this HTLC is scheduled under (by the invoice it carries, or
    /// by its own hash when it carries none).
    pub hash_ix: usize,
    pub htlc_hash: H32,
    /// Bytes of `htlc_hash` sent as htlc.payment_hash (32 normally; shorter =
    /// a proper prefix, 33 = one byte appended: never a match for any invoice).
    pub hash_len: u8,
    /// 0 = none; otherwise the request is sent with a field of the wrong JSON
    /// type or without a required field (engine::build_call).
    pub req_mutation: u8,
    pub amount_msat: u64,
    /// Absolute expiry = clamp(height_at_offer + off) unless `expiry_abs`.
    pub expiry_off: i64,
    pub expiry_abs: Option<u32>,
    pub rel_override: Option<i64>,
    pub forward_msat: Option<u64>,
    pub total_msat: Option<u64>,
    pub onion_scid: Option<String>,
    /// onion.payload as hex string (normally valid hex of prefix+stream).
    pub payload_hex: String,
    pub tag: &'static str,
    /// The generator's intent: this HTLC is meant to be a well-formed part of a
    /// trampoline payment (used only for workload statistics).
    pub intended_good: bool,
}

#[derive(Clone, Copy, Debug, PartialEq)]
pub enum AmtField {
    Absent,
    Value(u64),
    /// Raw bytes (0..=9 long) for the 33003 value.
    RawLen(usize),
}

pub fn metadata_value(invoice_bytes: &[u8], amt: AmtField, extra_unknown: bool) -> Vec<u8> {
    metadata_value_layout(invoice_bytes, amt, if extra_unknown { 1 } else { 0 })
}

/// `layout`: where unknown records sit relative to the invoice (33001) and
/// amount (33003) records and in which order these two come. The plugin looks
/// records up by type wherever they are; so does the reference.
///   0 plain, 1 unknown after, 2 unknown (low type) before, 3 unknown between,
///   4 amount before invoice, 5 unknown of a higher type between (unsorted),
///   6 unknown of a higher type first (unsorted)
pub fn metadata_value_layout(invoice_bytes: &[u8], amt: AmtField, layout: u8) -> Vec<u8> {
    let inv: (u64, Vec<u8>) = (33001, invoice_bytes.to_vec());
    let amt: Option<(u64, Vec<u8>)> = match amt {
        AmtField::Absent => None,
        AmtField::Value(v) => Some((33003, tu64_min(v))),
        AmtField::RawLen(n) => Some((33003, vec![if n == 0 { 0 } else { 0x01 }; n])),
    };
    let mut recs: Vec<(u64, Vec<u8>)> = Vec::new();
    match layout {
        1 => {
            recs.push(inv);
            recs.extend(amt);
            recs.push((33005, vec![0xde, 0xad]));
        }
        2 => {
            recs.push((1, vec![0x07]));
            recs.push(inv);
            recs.extend(amt);
        }
        3 => {
            recs.push(inv);
            recs.push((33002, vec![0xbe, 0xef, 0x00]));
            recs.extend(amt);
        }
        4 => {
            recs.extend(amt);
            recs.push(inv);
        }
        5 => {
            recs.push(inv);
            recs.push((65537, vec![0x01]));
            recs.extend(amt);
        }
        6 => {
            recs.push((40001, vec![]));
            recs.push(inv);
            recs.extend(amt);
        }
        _ => {
            recs.push(inv);
            recs.extend(amt);
        }
    }
    encode_tlv(&recs)
}

/// A BOLT-4 final-hop payload: amt_to_forward(2), outgoing_cltv(4),
/// payment_data(8), payment_metadata(16) [+ unknown odd record].
pub fn onion_payload(
    forward: u64,
    cltv: u32,
    total: u64,
    metadata: Option<&[u8]>,
    unknown_record: bool,
) -> Vec<u8> {
    onion_payload_ext(forward, cltv, total, metadata, if unknown_record { 1 } else { 0 })
}

/// `extra_after`: number of unknown odd records after the metadata record
/// (bit 2 set: the first of them is 300 bytes long, needing a 3-byte length).
pub fn onion_payload_ext(
    forward: u64,
    cltv: u32,
    total: u64,
    metadata: Option<&[u8]>,
    extra_after: u8,
) -> Vec<u8> {
    let mut recs: Vec<(u64, Vec<u8>)> = Vec::new();
    recs.push((2, tu64_min(forward)));
    recs.push((4, tu64_min(cltv as u64)));
    let mut pd = vec![42u8; 32];
    pd.extend_from_slice(&tu64_min(total));
    recs.push((8, pd));
    if let Some(m) = metadata {
        recs.push((16, m.to_vec()));
    }
    let n = extra_after & 3;
    for i in 0..n {
        // Lengths around the BigSize width boundary (252 / 253 / 254 / 255 / 256 / 300).
        let len = if i == 0 && extra_after & 4 != 0 {
            // (the three largest only where the input is not read byte by byte: bit 3)
            let choices: &[usize] = if extra_after & 8 != 0 {
                &[300, 253, 252, 254, 255, 256, 65535, 65536, 70000]
            } else {
                &[300, 253, 252, 254, 255, 256]
            };
            choices[(forward as usize ^ extra_after as usize ^ total as usize) % choices.len()]
        } else {
            1 + i as usize * 2
        };
        recs.push((65537 + 2 * i as u64, (0..len).map(|k| (k as u8).wrapping_mul(7).wrapping_add(i)).collect()));
    }
    with_length_prefix(&encode_tlv(&recs))
}

/// A BigSize prefix byte followed by fewer bytes than it announces: every
/// width (2/4/8) at every truncation length.
pub fn trunc_varint(rng: &mut Rng) -> Vec<u8> {
    let (b, w) = *rng.pick(&[(0xfdu8, 2u64), (0xfe, 4), (0xff, 8)]);
    let k = rng.below(w);
    let mut v = vec![b];
    for _ in 0..k {
        v.push(match rng.below(3) {
            0 => 0x00,
            1 => 0xff,
            _ => rng.below(256) as u8,
        });
    }
    v
}

/// Malformed metadata values (the bytes inside record 16).
pub fn malformed_metadata(rng: &mut Rng, invoice: &[u8]) -> (Vec<u8>, &'static str) {
    match rng.below(15) {
        12 => {
            // A good invoice record, then an amount record that announces 8
            // bytes and carries 1..7 (a decoder that clamps instead of
            // rejecting reads a much smaller amount).
            let mut v = encode_tlv(&[(33001, invoice.to_vec())]);
            super::reference::write_bigsize(&mut v, 33003);
            v.push(8);
            let have = 1 + rng.below(7) as usize;
            v.extend_from_slice(&1_000_000u64.to_be_bytes()[..have]);
            (v, "meta:amount-record-cut-short")
        }
        13 => {
            // The invoice record itself announces more bytes than there are.
            let mut v = Vec::new();
            super::reference::write_bigsize(&mut v, 33001);
            super::reference::write_bigsize(&mut v, invoice.len() as u64 + 1 + rng.below(300));
            v.extend_from_slice(invoice);
            (v, "meta:invoice-record-cut-short")
        }
        14 => {
            // good invoice + good amount, then an unknown record cut short
            let mut v = encode_tlv(&[(33001, invoice.to_vec()), (33003, tu64_min(1_000_000))]);
            super::reference::write_bigsize(&mut v, 33005);
            v.push(4);
            v.extend_from_slice(&[1, 2][..rng.below(3) as usize]);
            (v, "meta:trailing-record-cut-short")
        }
        0 => (trunc_varint(rng), "meta:type-varint-truncated"),
        1 => {
            // type fine, length varint truncated
            let mut v = if rng.chance(1, 2) {
                vec![0x01]
            } else {
                vec![0xfd, 0x80, 0xe9]
            };
            v.extend(trunc_varint(rng));
            (v, "meta:length-varint-truncated")
        }
        2 => {
            // length running past the end
            let n = 1 + rng.below(40);
            let have = rng.below(n);
            let mut v = vec![0x01];
            super::reference::write_bigsize(&mut v, n);
            v.extend(std::iter::repeat(0x41).take(have as usize));
            (v, "meta:length-past-end")
        }
        3 => (Vec::new(), "meta:empty"),
        4 => (vec![rng.below(256) as u8], "meta:one-byte"),
        5 => {
            // huge declared length
            (
                vec![0xfd, 0x80, 0xe9, 0xff, 0xff, 0xff, 0xff, 0xff, 0xff, 0xff, 0xff, 0xff],
                "meta:inv-len-huge",
            )
        }
        6 => {
            // valid stream followed by a truncated varint (type position)
            let mut v = encode_tlv(&[(33001, invoice.to_vec())]);
            v.extend(trunc_varint(rng));
            (v, "meta:good-then-truncated-type")
        }
        7 => {
            // valid stream followed by a type and a truncated length
            let mut v = encode_tlv(&[(33001, invoice.to_vec())]);
            v.push(0x03);
            v.extend(trunc_varint(rng));
            (v, "meta:good-then-truncated-length")
        }
        8 => {
            // length-prefixed shapes that reach the payload-rewrite branch
            let inner = encode_tlv(&[(33001, vec![0x41, 0x42])]);
            (with_length_prefix(&inner), "meta:length-prefixed")
        }
        9 => {
            // length-prefixed, inner stream truncated
            let mut inner = encode_tlv(&[(33003, vec![0x05])]);
            inner.extend(trunc_varint(rng));
            (with_length_prefix(&inner), "meta:length-prefixed-truncated")
        }
        10 => {
            // well-formed for the plain parser, but its first bytes read as a
            // length prefix followed by a truncated record
            let mut v = encode_tlv(&[(33001, vec![0xff, 0xfe, 0xfd])]);
            v.extend(trunc_varint(rng));
            (v, "meta:invoice-not-utf8-then-truncated")
        }
        _ => {
            let n = 2 + rng.below(12);
            let v: Vec<u8> = (0..n)
                .map(|_| *rng.pick(&[0xfdu8, 0xfe, 0xff, 0x00, 0x01, 0x10, 0x80]))
                .collect();
            (v, "meta:varint-soup")
        }
    }
}

/// Valid UTF-8 of `lo..=hi` bytes mixing 1-, 2-, 3- and 4-byte characters, so
/// that every byte offset is a character boundary in some draws and inside a
/// character in others.
pub fn nonascii_text(rng: &mut Rng, lo: usize, hi: usize) -> String {
    let want = lo + rng.below((hi - lo + 1) as u64) as usize;
    let mut s = String::new();
    while s.len() < want {
        s.push(*rng.pick(&['a', 'Z', '1', '\u{e9}', '\u{fc}', '\u{20ac}', '\u{4e16}', '\u{1f600}']));
    }
    s
}

/// Unusable-but-well-formed metadata.
pub fn unusable_metadata(rng: &mut Rng, pool: &Pool, hash_ix: usize) -> (Vec<u8>, &'static str) {
    match rng.below(14) {
        12 => (
            encode_tlv(&[(33001, nonascii_text(rng, 8, 120).into_bytes())]),
            "meta:invoice-text-non-ascii",
        ),
        13 => {
            let mut t = String::from("lnbc1");
            t.push_str(&nonascii_text(rng, 200, 700));
            (encode_tlv(&[(33001, t.into_bytes())]), "meta:invoice-long-text-non-ascii")
        }
        0 => (encode_tlv(&[(33003, tu64_min(5))]), "meta:amount-only"),
        1 => (
            encode_tlv(&[(33001, vec![0xff, 0xfe, 0xfd])]),
            "meta:invoice-not-utf8",
        ),
        2 => (
            encode_tlv(&[(33001, b"lnbc1notaninvoice".to_vec())]),
            "meta:invoice-not-bech32",
        ),
        3 => (
            metadata_value(
                pool.inv(hash_ix, InvKind::BadSig).bolt11.as_bytes(),
                AmtField::Absent,
                false,
            ),
            "meta:bad-signature",
        ),
        4 => (
            metadata_value(
                pool.inv(hash_ix, InvKind::Fixed).bolt11.as_bytes(),
                AmtField::Value(pool.fixed_amounts[hash_ix] + 1),
                false,
            ),
            "meta:amount-disagrees",
        ),
        5 => (
            metadata_value(
                pool.inv(hash_ix, InvKind::Amountless).bolt11.as_bytes(),
                AmtField::Absent,
                false,
            ),
            "meta:amountless-no-amount",
        ),
        6 => (
            metadata_value(
                pool.inv(hash_ix, InvKind::Amountless).bolt11.as_bytes(),
                AmtField::RawLen(9),
                false,
            ),
            "meta:amountless-amount-9-bytes",
        ),
        8 => {
            let inner = encode_tlv(&[(33001, vec![0x41, 0x42])]);
            (with_length_prefix(&inner), "meta:length-prefixed-invoice")
        }
        9 => {
            // Two invoice records: the first one (garbage) counts.
            (
                encode_tlv(&[
                    (33001, b"lnbc1garbage".to_vec()),
                    (33001, pool.inv(hash_ix, InvKind::Fixed).bolt11.as_bytes().to_vec()),
                ]),
                "meta:duplicate-invoice-first-garbage",
            )
        }
        10 => {
            // Two amount records on a fixed invoice: the first one (disagreeing) counts.
            (
                encode_tlv(&[
                    (33001, pool.inv(hash_ix, InvKind::Fixed).bolt11.as_bytes().to_vec()),
                    (33003, tu64_min(pool.fixed_amounts[hash_ix] / 2)),
                    (33003, tu64_min(pool.fixed_amounts[hash_ix])),
                ]),
                "meta:duplicate-amount-first-disagrees",
            )
        }
        7 => {
            // Reaches the payload-rewrite branch: read with a length prefix it
            // is a stream containing record 33003.
            let inner = encode_tlv(&[(33003, tu64_min(7)), (33005, vec![9])]);
            (with_length_prefix(&inner), "meta:length-prefixed-amount")
        }
        _ => (encode_tlv(&[(33005, vec![1, 2, 3])]), "meta:unknown-only"),
    }
}

/// Undecodable onion payloads / requests (C06: arbitrary payload bytes).
pub fn undecodable_payload(rng: &mut Rng) -> (String, &'static str) {
    match rng.below(9) {
        0 => ("zz".to_string(), "payload:bad-hex"),
        1 => ("abc".to_string(), "payload:odd-hex"),
        2 => (hex::encode(trunc_varint(rng)), "payload:prefix-varint-truncated"),
        3 => ("04020105".to_string(), "payload:record-past-end"),
        4 => {
            // prefix, type, truncated length
            let mut v = vec![0x0c, 0x02];
            v.extend(trunc_varint(rng));
            (hex::encode(v), "payload:length-varint-truncated")
        }
        5 => {
            let mut v = vec![0x0c];
            v.extend(trunc_varint(rng));
            (hex::encode(v), "payload:type-varint-truncated")
        }
        6 => {
            // a good record, then a truncated one
            let mut v = vec![0x10, 0x02, 0x01, 0x05];
            v.push(0x04);
            v.extend(trunc_varint(rng));
            (hex::encode(v), "payload:good-then-truncated")
        }
        7 => {
            let n = 2 + rng.below(12);
            let v: Vec<u8> = (0..n)
                .map(|_| *rng.pick(&[0xfdu8, 0xfe, 0xff, 0x00, 0x01, 0x10, 0x80]))
                .collect();
            (hex::encode(v), "payload:varint-soup")
        }
        _ => ("0410ff0102".to_string(), "payload:len-ff-trunc"),
    }
}

pub fn pick_boundary_u64(rng: &mut Rng) -> u64 {
    match rng.below(8) {
        0 => u64::MAX,
        1 => u64::MAX - rng.below(4),
        2 => (u64::MAX / 2).wrapping_add(rng.below(3)),
        3 => 0,
        4 => 1,
        5 => u64::MAX / 1_000_000 + rng.below(3),
        6 => u64::MAX / 5000 + rng.below(3),
        _ => rng.next_u64(),
    }
}

/// Minimum total a sender must provide: amount + base + floor(amount*ppm/1e6), if it fits.
pub fn required_total(amount: u64, base: u32, ppm: u32) -> Option<u64> {
    let rhs: u128 = amount as u128 + base as u128 + (amount as u128 * ppm as u128) / 1_000_000u128;
    u64::try_from(rhs).ok()
}

/// Splits `total` into `k` positive parts (content stream).
pub fn split_amount(rng: &mut Rng, total: u64, k: u32) -> Vec<u64> {
    let k = k.max(1) as u64;
    if total < k {
        return vec![total];
    }
    let mut parts = Vec::new();
    let mut left = total;
    for i in 0..k {
        let remaining_parts = k - i;
        if remaining_parts == 1 {
            parts.push(left);
        } else {
            let max_here = left - (remaining_parts - 1);
            let p = match rng.below(4) {
                0 => 1,
                1 => max_here,
                _ => 1 + rng.below(max_here),
            };
            parts.push(p);
            left -= p;
        }
    }
    parts
}

#[derive(Clone, Debug)]
pub struct SetSpec {
    pub set_ix: u32,
    pub hash_ix: usize,
    pub shape: &'static str,
    pub htlcs: Vec<HtlcSpec>,
}

/// Generates set number `set_ix` of a run. Pure function of (content seed,
/// set index, configuration, forced hash index).
pub fn gen_set(content_seed: u64, set_ix: u32, cfg: &RunCfg, force_hash: Option<usize>) -> SetSpec {
    let pool = pool();
    let mut rng = Rng::new(super::rng::mix(content_seed, 0x5E7 + set_ix as u64));
    let hash_ix = force_hash.unwrap_or_else(|| rng.below(cfg.n_hashes.min(NH) as u64) as usize);
    let r = &mut rng;

    // Non-trampoline / undecodable singles.
    if r.permille(cfg.f_undecodable) {
        let (mut payload_hex, mut tag) = undecodable_payload(r);
        let req_mutation = if r.chance(1, 3) { 1 + r.below(11) as u8 } else { 0 };
        if req_mutation != 0 {
            // an otherwise ordinary request
            payload_hex = hex::encode(onion_payload(1000, 500, 1000, None, false));
            tag = "request:field-of-wrong-type-or-missing";
        }
        return SetSpec {
            set_ix,
            hash_ix,
            shape: "undecodable",
            htlcs: vec![HtlcSpec {
                hash_ix,
                htlc_hash: pool.hashes[hash_ix],
                hash_len: 32,
                req_mutation,
                amount_msat: 1000,
                expiry_off: 2000,
                expiry_abs: None,
                rel_override: None,
                forward_msat: Some(1000),
                total_msat: Some(1000),
                onion_scid: None,
                payload_hex,
                tag,
                intended_good: false,
            }],
        };
    }
    if r.permille(cfg.f_nontrampoline) {
        return gen_nontrampoline(r, cfg, set_ix, hash_ix);
    }
    if r.permille(cfg.f_malformed) {
        let inv = pool.inv(hash_ix, if r.chance(1, 2) { InvKind::Fixed } else { InvKind::Amountless });
        let (meta, tag) = malformed_metadata(r, inv.bolt11.as_bytes());
        let payload = onion_payload_ext(1000, 500, 1000, Some(&meta), r.below(8) as u8 | if cfg.chunking == 0 { 8 } else { 0 });
        return SetSpec {
            set_ix,
            hash_ix,
            shape: "malformed-metadata",
            htlcs: vec![HtlcSpec {
                hash_ix,
                htlc_hash: pool.hashes[hash_ix],
                hash_len: 32,
                req_mutation: 0,
                amount_msat: 1000,
                expiry_off: 2000,
                expiry_abs: None,
                rel_override: None,
                forward_msat: Some(1000),
                total_msat: Some(1000),
                onion_scid: None,
                payload_hex: hex::encode(payload),
                tag,
                intended_good: false,
            }],
        };
    }

    // Trampoline-looking sets.
    let kind = match r.below(13) {
        12 => InvKind::EmptyHint,
        0..=3 => InvKind::Fixed,
        4..=5 => InvKind::Amountless,
        6 => InvKind::SelfHint,
        7 => InvKind::OtherHint,
        8 => InvKind::ExplicitPayee,
        10 => InvKind::MixedHintSelfFirst,
        11 => InvKind::MixedHintSelfLast,
        _ => InvKind::Fixed,
    };
    let inv = pool.inv(hash_ix, kind);
    let extreme = r.permille(cfg.f_extreme_numbers);
    let (amount, amt_field) = match inv.amount {
        Some(a) => {
            let f = match r.below(9) {
                0 => AmtField::Value(a),
                1 => AmtField::RawLen(9), // ignored as malformed, invoice amount rules
                2 => match r.below(4) {
                    // well-formed but disagreeing: not a trampoline request
                    0 => AmtField::Value(0),
                    1 => AmtField::RawLen(0),
                    2 => AmtField::Value(a / 2),
                    _ => AmtField::Value(a.saturating_add(1)),
                },
                _ => AmtField::Absent,
            };
            (a, f)
        }
        None => {
            let a = if extreme {
                pick_boundary_u64(r)
            } else {
                *r.pick(&[1_000u64, 1, 123_456, 1_000_000, 77_000_000, 0])
            };
            (a, AmtField::Value(a))
        }
    };
    let need = required_total(amount, cfg.policy_base, cfg.policy_ppm);
    let underfund = r.permille(cfg.f_underfund);
    let (shape, total): (&'static str, u64) = match need {
        None => ("unfundable", u64::MAX),
        Some(n) => {
            if underfund && r.chance(1, 2) {
                // The sender declares (and intends) a sufficient total, but one
                // part never arrives: the set waits and times out.
                ("part-missing", n.saturating_add(r.below(3)))
            } else if underfund {
                let cut = match r.below(3) {
                    0 => 1,
                    1 => n / 2,
                    _ => r.below(n.max(1)),
                };
                ("underfunded", n.saturating_sub(cut.max(1)))
            } else {
                let extra = match r.below(5) {
                    0 | 1 => 0,
                    2 => 1,
                    3 => r.below(10_000),
                    _ => n / 10,
                };
                ("funded", n.saturating_add(extra))
            }
        }
    };
    // Physical HTLC amounts stay below 2.1e18 in total (DESIGN.md 4.5): the
    // *real* sum cannot overflow; declared fields may be anything.
    const PHYS_MAX: u64 = 2_100_000_000_000_000_000;
    let phys_total = total.min(PHYS_MAX);
    let mut k = 1 + r.below(cfg.max_parts.max(1) as u64) as u32;
    if shape == "part-missing" {
        k = k.max(2);
    }
    let mut parts = if phys_total == 0 {
        vec![0]
    } else {
        split_amount(r, phys_total, k)
    };
    if shape == "part-missing" && parts.len() >= 2 {
        let drop = r.below(parts.len() as u64) as usize;
        parts.remove(drop);
    }
    // Expiries: comfortable by default.
    let comfortable: i64 = cfg.policy_delta as i64 + cfg.cltv_delta as i64 + 10;
    let mut htlcs = Vec::new();
    let n = parts.len();
    let reject_at = if r.permille(cfg.f_reject_htlc) {
        Some(r.below(n as u64) as usize)
    } else {
        None
    };
    let mismatch = r.permille(cfg.f_mismatch_hash);
    let declared_total = if extreme && r.chance(1, 2) {
        pick_boundary_u64(r)
    } else {
        match r.below(6) {
            0 => phys_total.saturating_add(1),
            _ => total,
        }
    };
    for (i, p) in parts.iter().enumerate() {
        let mut off: i64 = match r.below(8) {
            0 => cfg.policy_delta as i64,
            1 => cfg.policy_delta as i64 + 1,
            2 => comfortable + r.below(500) as i64,
            3 => cfg.cltv_delta as i64 + r.below(3) as i64,
            4 => cfg.policy_delta as i64 + cfg.cltv_delta as i64,
            _ => comfortable,
        };
        let mut expiry_abs = None;
        let mut rel_override = None;
        let mut tag: &'static str = "part";
        let mut inv_bytes = inv.bolt11.as_bytes().to_vec();
        let mut field = amt_field;
        let mut decl = declared_total;
        if extreme && r.chance(1, 4) {
            match r.below(4) {
                0 => expiry_abs = Some(u32::MAX),
                1 => expiry_abs = Some(0),
                2 => rel_override = Some(i64::MAX),
                _ => rel_override = Some(i64::MIN),
            }
            tag = "extreme-expiry";
        }
        if reject_at == Some(i) {
            match r.below(5) {
                0 => {
                    off = cfg.policy_delta as i64 - 1 - r.below(3) as i64;
                    tag = "reject:low-relative-expiry";
                }
                1 => {
                    rel_override = Some(-(r.below(5) as i64));
                    tag = "reject:negative-relative-expiry";
                }
                2 => {
                    if let Some(nn) = need {
                        decl = nn.saturating_sub(1 + r.below(2));
                        tag = "reject:declared-total-low";
                    }
                }
                3 => {
                    let alt = if inv.amount.is_some() && r.chance(1, 2) { InvKind::AltSameAmount } else { InvKind::Alt };
                    inv_bytes = pool.inv(hash_ix, alt).bolt11.as_bytes().to_vec();
                    field = AmtField::Absent;
                    tag = "reject:conflicting-invoice";
                }
                _ => {
                    if inv.amount.is_none() {
                        field = AmtField::Value(amount.wrapping_add(1));
                        tag = "reject:conflicting-amount";
                    } else {
                        off = cfg.policy_delta as i64 - 1;
                        tag = "reject:low-relative-expiry";
                    }
                }
            }
        }
        let layout = if r.chance(1, 10) { 1 + r.below(6) as u8 } else { 0 };
        let meta = metadata_value_layout(&inv_bytes, field, layout);
        let forward = if extreme && r.chance(1, 8) {
            pick_boundary_u64(r)
        } else {
            *p
        };
        let forward_msat = if r.chance(1, 60) { None } else { Some(forward) };
        let total_msat = if r.chance(1, 12) { None } else { Some(decl) };
        let payload = onion_payload(forward, 500, decl, Some(&meta), r.chance(1, 6));
        let mut htlc_hash = pool.hashes[hash_ix];
        let mut hash_len = 32u8;
        if mismatch && (i == 0 || r.chance(1, 2)) {
            match r.below(3) {
                0 => htlc_hash = pool.hashes[(hash_ix + 1) % NH],
                1 => htlc_hash = [0xee; 32],
                // the right bytes, the wrong length
                _ => hash_len = *r.pick(&[0u8, 1, 16, 31, 33]),
            }
            tag = "hash-mismatch";
        }
        htlcs.push(HtlcSpec {
            hash_ix,
            htlc_hash,
            hash_len,
            req_mutation: 0,
            amount_msat: *p,
            expiry_off: off,
            expiry_abs,
            rel_override,
            forward_msat,
            total_msat,
            onion_scid: None,
            payload_hex: hex::encode(payload),
            tag,
            intended_good: tag == "part",
        });
    }
    SetSpec {
        set_ix,
        hash_ix,
        shape,
        htlcs,
    }
}

fn gen_nontrampoline(r: &mut Rng, cfg: &RunCfg, set_ix: u32, hash_ix: usize) -> SetSpec {
    let pool = pool();
    let big: u8 = if cfg.chunking == 0 { 8 } else { 0 };
    let inv = pool.inv(hash_ix, InvKind::Fixed);
    let good_meta = metadata_value(inv.bolt11.as_bytes(), AmtField::Absent, false);
    let (payload, scid, fwd, tag): (Vec<u8>, Option<String>, Option<u64>, &'static str) =
        match r.below(6) {
            0 => (
                // plain forward without metadata
                with_length_prefix(&encode_tlv(&[
                    (2, tu64_min(1000)),
                    (4, tu64_min(500)),
                    (6, vec![0, 0, 1, 0, 0, 2, 0, 3]),
                ])),
                Some("1x2x3".to_string()),
                Some(1000),
                "forward",
            ),
            1 => (
                // forward that (strangely) carries good trampoline metadata
                onion_payload_ext(1000, 500, 1000, Some(&good_meta), r.below(8) as u8 | big),
                Some("103x1x0".to_string()),
                Some(1000),
                "forward-with-metadata",
            ),
            2 => (
                onion_payload(1000, 500, 1000, None, r.chance(1, 2)),
                None,
                Some(1000),
                "receive-no-metadata",
            ),
            3 => {
                let (m, tag) = unusable_metadata(r, pool, hash_ix);
                (
                    onion_payload_ext(1000, 500, 1000, Some(&m), r.below(8) as u8 | big),
                    None,
                    Some(1000),
                    tag,
                )
            }
            4 => (
                onion_payload(1000, 500, 1000, Some(&good_meta), false),
                None,
                None,
                "trampoline-no-forward-amount",
            ),
            _ => (Vec::new(), None, Some(1000), "empty-payload"),
        };
    SetSpec {
        set_ix,
        hash_ix,
        shape: "non-trampoline",
        htlcs: vec![HtlcSpec {
            hash_ix,
            htlc_hash: pool.hashes[hash_ix],
            hash_len: 32,
            req_mutation: 0,
            amount_msat: 1000,
            expiry_off: 2000,
            expiry_abs: None,
            rel_override: None,
            forward_msat: fwd,
            total_msat: Some(1000),
            onion_scid: scid,
            payload_hex: hex::encode(payload),
            tag,
            intended_good: false,
        }],
    }
}

/// A fresh, fully funded, well-formed single-HTLC set for `hash_ix`, used by
/// the recovery probe (C09) and the configuration probes (C19).
pub fn probe_set(cfg: &RunCfg, hash_ix: usize, overpay: u64) -> Option<HtlcSpec> {
    let pool = pool();
    let inv = pool.inv(hash_ix, InvKind::Fixed);
    let amount = inv.amount.unwrap();
    let need = required_total(amount, cfg.policy_base, cfg.policy_ppm)?;
    let total = need.checked_add(overpay)?;
    let meta = metadata_value(inv.bolt11.as_bytes(), AmtField::Absent, false);
    let payload = onion_payload(total, 500, total, Some(&meta), false);
    Some(HtlcSpec {
        hash_ix,
        htlc_hash: pool.hashes[hash_ix],
        hash_len: 32,
        req_mutation: 0,
        amount_msat: total,
        expiry_off: cfg.policy_delta as i64 + cfg.cltv_delta as i64 + 100,
        expiry_abs: None,
        rel_override: None,
        forward_msat: Some(total),
        total_msat: Some(total),
        onion_scid: None,
        payload_hex: hex::encode(payload),
        tag: "probe",
        intended_good: true,
    })
}
