//! Scheduler operations (DESIGN.md 4.3). A run is a list of these; the list is
//! the schedule + fault trace and is what a replay file stores.

use serde::{Deserialize, Serialize};

use super::node::{Method, PayOutcome, RpcFault};

/// Stable logical identity of an outstanding RPC: the n-th oldest outstanding
/// RPC of `method` whose subject is hash index `hash` (255 = no subject /
/// unknown hash). Stays meaningful when other operations are deleted.
#[derive(Clone, Debug, PartialEq, Eq, Serialize, Deserialize)]
pub struct RpcSel {
    pub method: Method,
    pub hash: u8,
    pub nth: u8,
}

#[derive(Clone, Copy, Debug, PartialEq, Eq, Serialize, Deserialize)]
pub enum NotifyMode {
    /// block_added for the new tip is delivered
    Deliver,
    /// no notification (lost)
    Drop,
    /// delivered twice
    Dup,
    /// a stale height is announced instead
    Stale(u32),
    /// the new tip, immediately followed by a stale height (two notifications
    /// handed over back to back)
    Burst(u32),
    /// a notification the plugin cannot decode (old shape, missing or
    /// out-of-range height): it must be survived
    Malformed(u8),
}

#[derive(Clone, Debug, PartialEq, Serialize, Deserialize)]
pub enum Op {
    /// A sender offers HTLC set number `set` (content: seed x set index).
    Offer { set: u32, hash: Option<u8> },
    /// Recovery / configuration probe: fresh fully funded single HTLC.
    OfferProbe { hash: u8, overpay: u64, expiry_off: Option<i64> },
    /// Write htlc_accepted for these HTLCs to the plugin's stdin in one write.
    /// `release`: bytes readable at once (u32::MAX = everything).
    Deliver { hids: Vec<u64>, release: u32 },
    /// Let the reader have `n` more bytes.
    Feed { n: u32 },
    /// Apply an outstanding RPC to the node now; deliver the reply now or park it.
    Apply {
        rpc: RpcSel,
        fault: RpcFault,
        deliver: bool,
    },
    /// Deliver a parked reply.
    Reply { rpc: RpcSel },
    /// Running pay command creates parts.
    CmdParts { cmd: u32, n: u8, fee_share: u16 },
    /// Running pay command ends.
    CmdFinish { cmd: u32, outcome: PayOutcome },
    /// Pending part resolves.
    Part { part: u32, complete: bool, code: i32 },
    /// Advance virtual time.
    Time { ms: u64 },
    /// Chain grows by k blocks.
    Block { k: u32, notify: NotifyMode },
    /// Whole-node crash and restart.
    /// `down_s`: seconds the node stays down (wall clock and virtual time move on).
    Crash {
        lose_answers: bool,
        #[serde(default = "one")]
        down_s: u64,
    },
    /// Wall clock jumps.
    ClockJump { secs: i64 },
    /// RPC socket unreachable / reachable again.
    Outage { on: bool },
    /// Stdout back-pressure: the node reads `n` more bytes (u32::MAX = unlimited).
    StdoutGrant { n: u32 },
    /// Marks the start of the fault-free end phase (bookkeeping only).
    QuiesceMark,
    /// From now on nothing is done for this hash: its RPCs are never applied,
    /// its parts never resolve, its pay commands never progress (C14).
    /// `soft`: only the outgoing payment stalls (parts and pay commands never
    /// progress, so waits for them never return); every other RPC for the
    /// hash is still served.
    Freeze {
        hash: u8,
        #[serde(default)]
        soft: bool,
    },
    /// E2: command for the component under test (e.g. new_block / query height).
    Comp { cmd: String, arg: u64 },
    /// E2 watcher: from here on notifications are lost and polls are answered
    /// promptly; the height must catch up within one poll interval.
    CatchupMark,
    /// Several operations executed in one step, before the plugin runs again.
    Multi { ops: Vec<Op> },
}

fn one() -> u64 {
    1
}

impl Op {
    pub fn kind(&self) -> &'static str {
        match self {
            Op::Offer { .. } => "offer",
            Op::OfferProbe { .. } => "offer-probe",
            Op::Deliver { .. } => "deliver",
            Op::Feed { .. } => "feed",
            Op::Apply { .. } => "apply",
            Op::Reply { .. } => "reply",
            Op::CmdParts { .. } => "cmd-parts",
            Op::CmdFinish { .. } => "cmd-finish",
            Op::Part { .. } => "part",
            Op::Time { .. } => "time",
            Op::Block { .. } => "block",
            Op::Crash { .. } => "crash",
            Op::ClockJump { .. } => "clock-jump",
            Op::Outage { .. } => "outage",
            Op::StdoutGrant { .. } => "stdout-grant",
            Op::QuiesceMark => "quiesce",
            Op::Freeze { .. } => "freeze",
            Op::Comp { .. } => "comp",
            Op::CatchupMark => "catchup-mark",
            Op::Multi { .. } => "multi",
        }
    }

    pub fn is_fault(&self) -> bool {
        match self {
            Op::Apply { fault, deliver, .. } => *fault != RpcFault::None || !*deliver,
            Op::Crash { .. } | Op::ClockJump { .. } | Op::Outage { .. } => true,
            Op::Block { notify, .. } => *notify != NotifyMode::Deliver,
            Op::CmdFinish { outcome, .. } => {
                !matches!(outcome, PayOutcome::Complete | PayOutcome::FailedFinal)
            }
            _ => false,
        }
    }
}
