//! SimNode: the model of lightningd the plugin talks to (DESIGN.md 4.4).
//! Pure data + transition functions; no tokio, no randomness. Every choice
//! (which RPC, which fault, which part outcome) is made by the scheduler and
//! passed in.

use std::collections::BTreeMap;

use serde::{Deserialize, Serialize};
use serde_json::{json, Value};

use super::content::{pool, HtlcSpec};
use super::reference::{self as rf, Class, StoreKind, H32};
use super::seam::SimReply;

#[derive(Clone, Debug, PartialEq)]
pub struct DsEntry {
    pub string: String,
    pub generation: u64,
}

#[derive(Clone, Copy, Debug, PartialEq, Eq, Serialize, Deserialize)]
pub enum PartStatus {
    Pending,
    Complete,
    Failed(i32),
}

#[derive(Clone, Debug)]
pub struct Part {
    pub hash: H32,
    pub groupid: u64,
    pub partid: u64,
    pub status: PartStatus,
    pub amount_msat: u64,
    pub fee_msat: u64,
    pub cmd: usize,
    pub id: u64,
    pub created_seq: u64,
}

#[derive(Clone, Copy, Debug, PartialEq, Eq)]
pub enum CmdState {
    Running,
    Replied,
    Dead,
}

#[derive(Clone, Debug)]
pub struct PayCmd {
    pub rpc: u64,
    pub hash: H32,
    pub bolt11: String,
    pub amount_msat: u64,
    pub maxfee: u64,
    pub maxdelay: u64,
    pub retry_for: u64,
    /// `label` of the pay request; lightningd copies it onto the parts it lists
    pub label: Option<String>,
    pub groupid: u64,
    pub state: CmdState,
    pub parts_created: u32,
    pub lifetime: u32,
    pub applied_seq: u64,
}

#[derive(Clone, Copy, Debug, PartialEq, Eq, Hash, PartialOrd, Ord, Serialize, Deserialize)]
pub enum Method {
    Getinfo,
    Datastore,
    Listdatastore,
    Listsendpays,
    Waitsendpay,
    Pay,
    Other,
}

impl Method {
    pub fn parse(s: &str) -> Method {
        match s {
            "getinfo" => Method::Getinfo,
            "datastore" => Method::Datastore,
            "listdatastore" => Method::Listdatastore,
            "listsendpays" => Method::Listsendpays,
            "waitsendpay" => Method::Waitsendpay,
            "pay" => Method::Pay,
            _ => Method::Other,
        }
    }
    pub fn is_write(self) -> bool {
        matches!(self, Method::Datastore)
    }
    pub fn is_read(self) -> bool {
        matches!(
            self,
            Method::Listdatastore | Method::Listsendpays | Method::Waitsendpay | Method::Getinfo
        )
    }
}

#[derive(Clone, Debug)]
pub enum RpcState {
    /// Issued by the plugin, not yet seen by the node.
    Issued,
    /// Applied; waiting for a part to resolve (waitsendpay).
    WaitingPart(usize),
    /// Applied; the pay command is running.
    WaitingCmd(usize),
    /// Applied (or rejected); reply computed, not yet delivered.
    ReplyReady(SimReply),
    Done,
}

#[derive(Clone, Debug)]
pub struct RpcRec {
    pub id: u64,
    pub method: Method,
    pub params: Value,
    pub hash: Option<H32>,
    pub state: RpcState,
    pub issued_seq: u64,
    pub issued_at_ms: u64,
    pub lifetime: u32,
    /// For datastore writes: which key kind ("state" / "attempt").
    pub ds_kind: Option<&'static str>,
    pub fault: Option<&'static str>,
    /// waitsendpay with a timeout: virtual time at which it gives up (code 200).
    pub deadline_ms: Option<u64>,
}

#[derive(Clone, Debug, PartialEq)]
pub enum Answer {
    Continue(Option<Vec<u8>>),
    Fail(Vec<u8>),
    Resolve(Vec<u8>),
    /// JSON-RPC error reply to a hook call.
    RpcError(Value),
    /// A `result` that is none of the three.
    Malformed(Value),
}

impl Answer {
    pub fn kind(&self) -> &'static str {
        match self {
            Answer::Continue(_) => "continue",
            Answer::Fail(_) => "fail",
            Answer::Resolve(_) => "resolve",
            Answer::RpcError(_) => "rpc-error",
            Answer::Malformed(_) => "malformed",
        }
    }
}

#[derive(Clone, Debug, PartialEq)]
pub enum HtlcState {
    /// Held by the node, not (or no longer) delivered to a running plugin.
    Offered,
    /// htlc_accepted written to the current lifetime; index into `calls`.
    InFlight(usize),
    /// The node processed a final answer.
    Gone,
}

#[derive(Clone, Debug)]
pub struct HtlcRec {
    pub hid: u64,
    pub set_ix: u32,
    pub spec: HtlcSpec,
    pub expiry: u32,
    pub class: Class,
    pub state: HtlcState,
    pub deliveries: u32,
    pub final_answer: Option<Answer>,
    pub is_probe: bool,
}

#[derive(Clone, Debug)]
pub struct CallRec {
    pub call_id: String,
    pub hid: u64,
    pub lifetime: u32,
    pub params: Value,
    pub class: Class,
    pub written_seq: u64,
    /// Step in which the last byte of the request became readable.
    pub delivered_step: Option<u64>,
    pub delivered_at_ms: Option<u64>,
    pub answer: Option<Answer>,
    pub answered_step: Option<u64>,
    pub answered_at_ms: Option<u64>,
    pub extra_answers: u32,
    /// Position (byte offset in this lifetime's stdin) one past the request.
    pub end_offset: u64,
}

#[derive(Clone, Copy, Debug, PartialEq, Eq, Serialize, Deserialize)]
pub enum RpcFault {
    None,
    /// Not applied; transport-level failure (socket could not be connected).
    Transport,
    /// Not applied; the node answers with this error code.
    Code(i32),
    /// Applied, but an error is reported (datastore writes).
    AppliedButError,
}

#[derive(Clone, Copy, Debug, PartialEq, Eq, Serialize, Deserialize)]
pub enum PayOutcome {
    Complete,
    /// status: failed, without warning_partial_completion
    FailedFinal,
    /// status: failed + warning_partial_completion
    FailedPartial,
    /// status: pending
    Pending,
    /// JSON-RPC error with this code
    Error(i32),
}

pub struct SimNode {
    pub height: u32,
    pub datastore: BTreeMap<Vec<String>, DsEntry>,
    pub parts: Vec<Part>,
    pub pay_cmds: Vec<PayCmd>,
    pub htlcs: Vec<HtlcRec>,
    pub calls: Vec<CallRec>,
    pub rpcs: Vec<RpcRec>,
    pub outage: bool,
    pub lifetime: u32,
    pub next_hid: u64,
    pub next_call: u64,
    pub next_part_id: u64,
    pub seq: u64,
    /// Heights for which a block_added notification is queued.
    pub notif_queue: Vec<u32>,
    /// pending/failed `pay` results carry a placeholder preimage (so that they
    /// deserialise into the typed response) in this run?
    pub pay_placeholder_preimage: bool,
    /// error messages are several KiB of mixed-width UTF-8 in this run
    pub big_messages: bool,
    /// getinfo carries warning_bitcoind_sync / warning_lightningd_sync in this run
    pub sync_warnings: bool,
    pub stats: NodeStats,
}

#[derive(Default, Clone, Debug)]
pub struct NodeStats {
    pub rpc_applied: BTreeMap<&'static str, u64>,
    pub ds_errors: BTreeMap<i32, u64>,
    pub pay_already_paid: u64,
    pub pay_in_progress: u64,
    pub pay_started: u64,
    pub parts_created: u64,
    pub parts_completed: u64,
    pub parts_failed: u64,
}

pub fn method_name(m: Method) -> &'static str {
    match m {
        Method::Getinfo => "getinfo",
        Method::Datastore => "datastore",
        Method::Listdatastore => "listdatastore",
        Method::Listsendpays => "listsendpays",
        Method::Waitsendpay => "waitsendpay",
        Method::Pay => "pay",
        Method::Other => "other",
    }
}

fn err(code: i32, message: &str) -> SimReply {
    SimReply::Error {
        code: Some(code),
        message: message.to_string(),
        data: None,
    }
}

impl SimNode {
    pub fn new(height: u32) -> Self {
        SimNode {
            height,
            datastore: BTreeMap::new(),
            parts: Vec::new(),
            pay_cmds: Vec::new(),
            htlcs: Vec::new(),
            calls: Vec::new(),
            rpcs: Vec::new(),
            outage: false,
            lifetime: 0,
            next_hid: 0,
            next_call: 0,
            next_part_id: 1,
            seq: 0,
            notif_queue: Vec::new(),
            pay_placeholder_preimage: true,
            big_messages: false,
            sync_warnings: false,
            stats: NodeStats::default(),
        }
    }

    /// Text of an injected error: in `big_messages` runs a few KiB of 1- to
    /// 4-byte characters whose alignment varies from one message to the next.
    pub fn fault_message(&self, base: &str) -> String {
        if !self.big_messages {
            return base.to_string();
        }
        let k = self.seq;
        let mut m = String::from(base);
        m.push(' ');
        for _ in 0..(k % 5) {
            m.push('x');
        }
        let want = 3000 + (k.wrapping_mul(977) % 6000) as usize;
        let unit = ['\u{e9}', '\u{20ac}', 'a', '\u{1f600}', '\u{4e16}', '\u{fc}', 'b'];
        let mut i = (k % 7) as usize;
        while m.len() < want {
            m.push(unit[i % 7]);
            i += 1 + (k % 3) as usize;
        }
        m
    }

    pub fn tick(&mut self) -> u64 {
        self.seq += 1;
        self.seq
    }

    // ----- ground truth queries --------------------------------------------

    pub fn parts_of<'a>(&'a self, h: &'a H32) -> impl Iterator<Item = &'a Part> + 'a {
        self.parts.iter().filter(move |p| &p.hash == h)
    }

    pub fn has_pending(&self, h: &H32) -> bool {
        self.parts_of(h).any(|p| p.status == PartStatus::Pending)
    }

    pub fn has_complete(&self, h: &H32) -> bool {
        self.parts_of(h).any(|p| p.status == PartStatus::Complete)
    }

    pub fn cmd_running(&self, h: &H32) -> bool {
        self.pay_cmds
            .iter()
            .any(|c| &c.hash == h && c.state == CmdState::Running)
    }

    /// A `pay` for this hash issued by the current lifetime and not yet answered.
    pub fn pay_rpc_outstanding(&self, h: &H32) -> bool {
        self.rpcs.iter().any(|r| {
            r.method == Method::Pay
                && r.hash.as_ref() == Some(h)
                && !matches!(r.state, RpcState::Done)
        })
    }

    /// DESIGN.md section 6: some part pending or complete, or a pay for X issued
    /// and not replied.
    pub fn live(&self, h: &H32) -> bool {
        self.has_pending(h) || self.has_complete(h) || self.cmd_running(h) || self.pay_rpc_outstanding(h)
    }

    pub fn state_key(h: &H32) -> Vec<String> {
        vec![
            "trampoline".into(),
            "payments".into(),
            rf::hex(h),
            "state".into(),
        ]
    }

    pub fn store(&self, h: &H32) -> StoreKind {
        rf::decode_store(
            self.datastore
                .get(&Self::state_key(h))
                .map(|e| e.string.as_str()),
        )
    }

    pub fn held_calls<'a>(&'a self) -> impl Iterator<Item = (usize, &'a CallRec)> + 'a {
        let lt = self.lifetime;
        self.calls
            .iter()
            .enumerate()
            .filter(move |(_, c)| c.lifetime == lt && c.delivered_step.is_some() && c.answer.is_none())
    }

    pub fn htlc(&self, hid: u64) -> &HtlcRec {
        &self.htlcs[hid as usize]
    }

    pub fn outstanding_rpcs<'a>(&'a self) -> impl Iterator<Item = (usize, &'a RpcRec)> + 'a {
        self.rpcs
            .iter()
            .enumerate()
            .filter(|(_, r)| !matches!(r.state, RpcState::Done))
    }

    pub fn rpc_subject(method: Method, params: &Value) -> Option<H32> {
        match method {
            Method::Datastore | Method::Listdatastore => {
                let key = params.get("key")?.as_array()?;
                if key.len() >= 3
                    && key[0].as_str() == Some("trampoline")
                    && key[1].as_str() == Some("payments")
                {
                    rf::h32(key[2].as_str()?)
                } else {
                    None
                }
            }
            Method::Listsendpays | Method::Waitsendpay => {
                rf::h32(params.get("payment_hash")?.as_str()?)
            }
            Method::Pay => {
                let b = params.get("bolt11")?.as_str()?;
                rf::invoice_info(b, &pool().local_pubkey).ok().map(|i| i.hash)
            }
            _ => None,
        }
    }

    pub fn register_rpc(&mut self, id: u64, method: &str, params: Value, at_ms: u64) -> usize {
        let m = Method::parse(method);
        let hash = Self::rpc_subject(m, &params);
        let ds_kind = if m == Method::Datastore {
            match params
                .get("key")
                .and_then(|k| k.as_array())
                .and_then(|k| k.get(3))
                .and_then(|k| k.as_str())
            {
                Some("state") => Some("state"),
                Some("attempts") => Some("attempt"),
                _ => Some("other"),
            }
        } else {
            None
        };
        let seq = self.tick();
        self.rpcs.push(RpcRec {
            id,
            method: m,
            params,
            hash,
            state: RpcState::Issued,
            issued_seq: seq,
            issued_at_ms: at_ms,
            lifetime: self.lifetime,
            ds_kind,
            fault: None,
            deadline_ms: None,
        });
        self.rpcs.len() - 1
    }

    // ----- RPC application ---------------------------------------------------

    /// Applies outstanding RPC `idx` to the node at this instant. Afterwards its
    /// state is ReplyReady / WaitingPart / WaitingCmd.
    pub fn apply_rpc(&mut self, idx: usize, fault: RpcFault) {
        if !matches!(self.rpcs[idx].state, RpcState::Issued) {
            return;
        }
        let method = self.rpcs[idx].method;
        let fault = if self.outage { RpcFault::Transport } else { fault };
        match fault {
            RpcFault::Transport => {
                self.rpcs[idx].fault = Some("transport");
                self.rpcs[idx].state = RpcState::ReplyReady(SimReply::Transport(self.fault_message(
                    "Could not connect to lightning-rpc: Connection refused (os error 111)",
                )));
                return;
            }
            RpcFault::Code(0) => {
                self.rpcs[idx].fault = Some("codeless");
                self.rpcs[idx].state = RpcState::ReplyReady(SimReply::Codeless(
                    self.fault_message("Error passing request to lightningd: broken pipe"),
                ));
                return;
            }
            RpcFault::Code(c) => {
                self.rpcs[idx].fault = Some("code");
                let m = self.fault_message("injected error (request not applied)");
                self.rpcs[idx].state = RpcState::ReplyReady(err(c, &m));
                return;
            }
            _ => {}
        }
        *self
            .stats
            .rpc_applied
            .entry(method_name(method))
            .or_insert(0) += 1;
        let params = self.rpcs[idx].params.clone();
        let new_state = match method {
            Method::Getinfo => RpcState::ReplyReady(self.getinfo()),
            Method::Datastore => RpcState::ReplyReady(self.datastore_write(&params)),
            Method::Listdatastore => RpcState::ReplyReady(self.listdatastore(&params)),
            Method::Listsendpays => RpcState::ReplyReady(self.listsendpays(&params)),
            Method::Waitsendpay => self.waitsendpay(&params),
            Method::Pay => self.pay(idx, &params),
            Method::Other => RpcState::ReplyReady(err(-32601, "Unknown command")),
        };
        self.rpcs[idx].state = new_state;
        if fault == RpcFault::AppliedButError {
            if let RpcState::ReplyReady(SimReply::Result(_)) = self.rpcs[idx].state {
                self.rpcs[idx].fault = Some("applied-but-error");
                // cln_rpc reports a broken read as an RPC error without code.
                self.rpcs[idx].state = RpcState::ReplyReady(SimReply::Codeless(
                    "reading response from socket".into(),
                ));
            }
        }
    }

    fn getinfo(&self) -> SimReply {
        let mut v = json!({
            "id": pool().local_pubkey.to_string(),
            "alias": "SIMNODE",
            "color": "02bf81",
            "num_peers": 1,
            "num_pending_channels": 0,
            "num_active_channels": 2,
            "num_inactive_channels": 0,
            "address": [],
            "binding": [],
            "version": "v24.05",
            "blockheight": self.height,
            "network": "regtest",
            "fees_collected_msat": 0,
            "lightning-dir": "/l/regtest",
        });
        // A node that is still catching up says so; the height it reports is
        // the height it knows, and the plugin has no better source.
        if self.sync_warnings {
            match self.seq % 3 {
                0 => v["warning_bitcoind_sync"] = json!("Bitcoind is not up-to-date with network."),
                1 => v["warning_lightningd_sync"] = json!("Still loading latest blocks from bitcoind."),
                _ => {}
            }
        }
        SimReply::Result(v)
    }

    fn datastore_write(&mut self, p: &Value) -> SimReply {
        let key: Vec<String> = match p.get("key").and_then(|k| k.as_array()) {
            Some(a) => a
                .iter()
                .map(|x| x.as_str().unwrap_or("").to_string())
                .collect(),
            None => return err(-32602, "missing key"),
        };
        let string = match p.get("string").and_then(|s| s.as_str()) {
            Some(s) => s.to_string(),
            None => match p.get("hex").and_then(|s| s.as_str()) {
                Some(h) => format!("hex:{}", h),
                None => return err(-32602, "missing string/hex"),
            },
        };
        let mode = p
            .get("mode")
            .and_then(|m| m.as_str())
            .unwrap_or("must-create");
        let generation = p.get("generation").and_then(|g| g.as_u64());
        if generation.is_some() && mode != "must-replace" && mode != "must-append" {
            return err(-32602, "generation only valid with must-replace or must-append");
        }
        // Parent / child conflicts.
        for n in 1..key.len() {
            if self.datastore.contains_key(&key[..n].to_vec()) {
                *self.stats.ds_errors.entry(1206).or_insert(0) += 1;
                return err(1206, "Parent key exists");
            }
        }
        let has_children = self
            .datastore
            .keys()
            .any(|k| k.len() > key.len() && k[..key.len()] == key[..]);
        if has_children {
            *self.stats.ds_errors.entry(1205).or_insert(0) += 1;
            return err(1205, "Key has children");
        }
        let existing = self.datastore.get(&key).cloned();
        let new_entry = match (mode, existing) {
            ("must-create", Some(_)) => {
                *self.stats.ds_errors.entry(1202).or_insert(0) += 1;
                return err(1202, "Key already exists");
            }
            ("must-create", None) | ("create-or-replace", None) => DsEntry {
                string,
                generation: 0,
            },
            ("must-replace", None) | ("must-append", None) => {
                *self.stats.ds_errors.entry(1203).or_insert(0) += 1;
                return err(1203, "Key does not exist");
            }
            ("must-replace", Some(e)) | ("create-or-replace", Some(e)) => {
                if let Some(g) = generation {
                    if g != e.generation {
                        *self.stats.ds_errors.entry(1204).or_insert(0) += 1;
                        return err(1204, "generation is different");
                    }
                }
                DsEntry {
                    string,
                    generation: e.generation + 1,
                }
            }
            ("must-append", Some(e)) | ("create-or-append", Some(e)) => DsEntry {
                string: format!("{}{}", e.string, string),
                generation: e.generation + 1,
            },
            ("create-or-append", None) => DsEntry {
                string,
                generation: 0,
            },
            _ => return err(-32602, "unknown mode"),
        };
        let reply = json!({
            "key": key,
            "generation": new_entry.generation,
            "string": new_entry.string,
        });
        self.datastore.insert(key, new_entry);
        SimReply::Result(reply)
    }

    fn listdatastore(&self, p: &Value) -> SimReply {
        let key: Vec<String> = match p.get("key").and_then(|k| k.as_array()) {
            Some(a) => a
                .iter()
                .map(|x| x.as_str().unwrap_or("").to_string())
                .collect(),
            None => Vec::new(),
        };
        let mut out = Vec::new();
        if let Some(e) = self.datastore.get(&key) {
            out.push(json!({"key": key, "generation": e.generation, "string": e.string}));
        } else {
            // immediate children
            let mut seen: Vec<Vec<String>> = Vec::new();
            for (k, e) in self.datastore.iter() {
                if k.len() > key.len() && k[..key.len()] == key[..] {
                    let child = k[..key.len() + 1].to_vec();
                    if seen.contains(&child) {
                        continue;
                    }
                    seen.push(child.clone());
                    if k.len() == key.len() + 1 {
                        out.push(json!({"key": child, "generation": e.generation, "string": e.string}));
                    } else {
                        out.push(json!({"key": child}));
                    }
                }
            }
        }
        SimReply::Result(json!({ "datastore": out }))
    }

    fn part_json(&self, p: &Part) -> Value {
        let mut v = json!({
            "id": p.id,
            "created_index": p.id,
            "groupid": p.groupid,
            "payment_hash": rf::hex(&p.hash),
            "status": match p.status { PartStatus::Pending => "pending", PartStatus::Complete => "complete", PartStatus::Failed(_) => "failed" },
            "amount_msat": p.amount_msat,
            "amount_sent_msat": p.amount_msat.saturating_add(p.fee_msat),
            "created_at": 1_700_000_000u64,
            "destination": pool().recipient_pubkey.to_string(),
        });
        if p.partid != 0 {
            v["partid"] = json!(p.partid);
        }
        if let Some(l) = self.pay_cmds.get(p.cmd).and_then(|c| c.label.as_ref()) {
            v["label"] = json!(l);
        }
        if p.status == PartStatus::Complete {
            if let Some(ix) = pool().hash_index(&p.hash) {
                v["payment_preimage"] = json!(rf::hex(&pool().preimages[ix]));
            }
        }
        v
    }

    fn listsendpays(&self, p: &Value) -> SimReply {
        let h = p
            .get("payment_hash")
            .and_then(|h| h.as_str())
            .and_then(rf::h32);
        let status = p.get("status").and_then(|s| s.as_str());
        let mut out = Vec::new();
        for part in &self.parts {
            if let Some(h) = &h {
                if &part.hash != h {
                    continue;
                }
            }
            let ok = match status {
                None => true,
                Some("pending") => part.status == PartStatus::Pending,
                Some("complete") => part.status == PartStatus::Complete,
                Some("failed") => matches!(part.status, PartStatus::Failed(_)),
                _ => false,
            };
            if ok {
                out.push(self.part_json(part));
            }
        }
        SimReply::Result(json!({ "payments": out }))
    }

    fn part_reply(&self, pi: usize) -> SimReply {
        let p = &self.parts[pi];
        match p.status {
            PartStatus::Complete => SimReply::Result(self.part_json(p)),
            PartStatus::Failed(code) => SimReply::Error {
                code: Some(code),
                message: "failed: WIRE_TEMPORARY_CHANNEL_FAILURE (reply from remote)".into(),
                data: Some(json!({
                    "id": p.id, "payment_hash": rf::hex(&p.hash), "groupid": p.groupid, "partid": p.partid,
                    "status": "failed", "erring_index": 1, "failcode": 4103, "failcodename": "WIRE_TEMPORARY_CHANNEL_FAILURE",
                })),
            },
            PartStatus::Pending => unreachable!("part_reply on pending part"),
        }
    }

    fn waitsendpay(&mut self, p: &Value) -> RpcState {
        let h = match p
            .get("payment_hash")
            .and_then(|h| h.as_str())
            .and_then(rf::h32)
        {
            Some(h) => h,
            None => return RpcState::ReplyReady(err(-32602, "bad payment_hash")),
        };
        let partid = p.get("partid").and_then(|x| x.as_u64()).unwrap_or(0);
        let groupid = p.get("groupid").and_then(|x| x.as_u64());
        let found = self.parts.iter().position(|q| {
            q.hash == h && q.partid == partid && groupid.map(|g| g == q.groupid).unwrap_or(true)
        });
        match found {
            None => RpcState::ReplyReady(err(208, "Never attempted payment part")),
            Some(pi) => {
                if self.parts[pi].status == PartStatus::Pending {
                    RpcState::WaitingPart(pi)
                } else {
                    RpcState::ReplyReady(self.part_reply(pi))
                }
            }
        }
    }

    fn pay_result(&self, cmd: &PayCmd, status: &str, warning: bool, preimage: Option<H32>) -> Value {
        let mut v = json!({
            "destination": pool().recipient_pubkey.to_string(),
            "payment_hash": rf::hex(&cmd.hash),
            "created_at": 1_700_000_000.5f64,
            "parts": cmd.parts_created.max(1),
            "amount_msat": cmd.amount_msat,
            "amount_sent_msat": cmd.amount_msat,
            "status": status,
        });
        if let Some(p) = preimage {
            v["payment_preimage"] = json!(rf::hex(&p));
        }
        if warning {
            v["warning_partial_completion"] =
                json!("Some parts of the payment are not yet completed, but we have the confirmation from the recipient.");
        }
        v
    }

    fn pay(&mut self, rpc_idx: usize, p: &Value) -> RpcState {
        let bolt11 = match p.get("bolt11").and_then(|b| b.as_str()) {
            Some(b) => b.to_string(),
            None => return RpcState::ReplyReady(err(-32602, "missing bolt11")),
        };
        let inv = match rf::invoice_info(&bolt11, &pool().local_pubkey) {
            Ok(i) => i,
            Err(_) => return RpcState::ReplyReady(err(-32602, "Invalid bolt11")),
        };
        let hash: H32 = inv.hash;
        let amt_param = p.get("amount_msat").and_then(parse_amount);
        let amount = match (inv.amount, amt_param) {
            (Some(_), Some(_)) => {
                return RpcState::ReplyReady(err(-32602, "amount_msat parameter unnecessary"))
            }
            (Some(a), None) => a,
            (None, Some(a)) => a,
            (None, None) => {
                return RpcState::ReplyReady(err(-32602, "amount_msat parameter required"))
            }
        };
        let maxfee = p.get("maxfee").and_then(parse_amount).unwrap_or(u64::MAX);
        let maxdelay = p.get("maxdelay").and_then(|x| x.as_u64()).unwrap_or(2016);
        let retry_for = p.get("retry_for").and_then(|x| x.as_u64()).unwrap_or(60);
        let seq = self.tick();
        let rpc_id = self.rpcs[rpc_idx].id;
        let groupid = self
            .parts_of(&hash)
            .map(|q| q.groupid)
            .max()
            .unwrap_or(0)
            .max(
                self.pay_cmds
                    .iter()
                    .filter(|c| c.hash == hash)
                    .map(|c| c.groupid)
                    .max()
                    .unwrap_or(0),
            )
            + 1;
        let cmd = PayCmd {
            rpc: rpc_id,
            hash,
            bolt11,
            amount_msat: amount,
            maxfee,
            maxdelay,
            retry_for,
            label: p.get("label").and_then(|l| l.as_str()).map(|l| l.to_string()),
            groupid,
            state: CmdState::Running,
            parts_created: 0,
            lifetime: self.lifetime,
            applied_seq: seq,
        };
        if self.has_complete(&hash) {
            // Already paid: pay reports the earlier success.
            self.stats.pay_already_paid += 1;
            let pre = pool().hash_index(&hash).map(|i| pool().preimages[i]);
            let mut c = cmd;
            c.state = CmdState::Replied;
            let v = self.pay_result(&c, "complete", false, pre);
            self.pay_cmds.push(c);
            return RpcState::ReplyReady(SimReply::Result(v));
        }
        if self.has_pending(&hash) || self.cmd_running(&hash) {
            self.stats.pay_in_progress += 1;
            return RpcState::ReplyReady(err(200, "Payment is still in progress"));
        }
        self.stats.pay_started += 1;
        self.pay_cmds.push(cmd);
        RpcState::WaitingCmd(self.pay_cmds.len() - 1)
    }

    // ----- pay command / part evolution -------------------------------------

    /// The running command `ci` creates `n` new pending parts.
    pub fn cmd_create_parts(&mut self, ci: usize, n: u32, fee_each: u64) -> Vec<usize> {
        let mut out = Vec::new();
        if self.pay_cmds[ci].state != CmdState::Running {
            return out;
        }
        let hash = self.pay_cmds[ci].hash;
        let groupid = self.pay_cmds[ci].groupid;
        let amount = self.pay_cmds[ci].amount_msat;
        for k in 0..n {
            let partid_base = self
                .parts
                .iter()
                .filter(|p| p.hash == hash && p.groupid == groupid)
                .map(|p| p.partid)
                .max();
            // A single-part payment has partid 0 (omitted in JSON); multi-part
            // payments number their parts from 1.
            let partid = match partid_base {
                None if n == 1 => 0,
                None => 1,
                Some(m) => m + 1,
            };
            let seq = self.tick();
            let id = self.next_part_id;
            self.next_part_id += 1;
            let _ = k;
            self.parts.push(Part {
                hash,
                groupid,
                partid,
                status: PartStatus::Pending,
                amount_msat: amount / n.max(1) as u64,
                fee_msat: fee_each,
                cmd: ci,
                id,
                created_seq: seq,
            });
            self.pay_cmds[ci].parts_created += 1;
            self.stats.parts_created += 1;
            out.push(self.parts.len() - 1);
        }
        out
    }

    /// Resolves pending part `pi`. Parked waitsendpays become ReplyReady.
    pub fn resolve_part(&mut self, pi: usize, complete: bool, fail_code: i32) {
        if self.parts[pi].status != PartStatus::Pending {
            return;
        }
        if complete {
            self.parts[pi].status = PartStatus::Complete;
            self.stats.parts_completed += 1;
        } else {
            self.parts[pi].status = PartStatus::Failed(fail_code);
            self.stats.parts_failed += 1;
        }
        self.tick();
        for i in 0..self.rpcs.len() {
            if let RpcState::WaitingPart(w) = self.rpcs[i].state {
                if w == pi {
                    let r = self.part_reply(pi);
                    self.rpcs[i].state = RpcState::ReplyReady(r);
                }
            }
        }
    }

    /// Is `outcome` something the real node could report for command `ci` now?
    /// (DESIGN.md 4.4 constraints b, c.)
    pub fn pay_outcome_allowed(&self, ci: usize, outcome: PayOutcome) -> bool {
        let c = &self.pay_cmds[ci];
        if c.state != CmdState::Running {
            return false;
        }
        match outcome {
            PayOutcome::Complete => self.has_complete(&c.hash),
            PayOutcome::FailedFinal => !self.has_pending(&c.hash) && !self.has_complete(&c.hash),
            PayOutcome::FailedPartial | PayOutcome::Pending | PayOutcome::Error(_) => true,
        }
    }

    /// The running command `ci` ends with `outcome`; its `pay` RPC becomes ReplyReady.
    pub fn cmd_finish(&mut self, ci: usize, outcome: PayOutcome) -> bool {
        if !self.pay_outcome_allowed(ci, outcome) {
            return false;
        }
        let hash = self.pay_cmds[ci].hash;
        self.pay_cmds[ci].state = CmdState::Replied;
        self.tick();
        let pre = pool().hash_index(&hash).map(|i| pool().preimages[i]);
        let placeholder = if self.pay_placeholder_preimage {
            Some([0u8; 32])
        } else {
            None
        };
        let cmd = self.pay_cmds[ci].clone();
        let reply = match outcome {
            PayOutcome::Complete => SimReply::Result(self.pay_result(&cmd, "complete", false, pre)),
            PayOutcome::FailedFinal => {
                SimReply::Result(self.pay_result(&cmd, "failed", false, placeholder))
            }
            PayOutcome::FailedPartial => {
                SimReply::Result(self.pay_result(&cmd, "failed", true, placeholder))
            }
            PayOutcome::Pending => {
                SimReply::Result(self.pay_result(&cmd, "pending", false, placeholder))
            }
            PayOutcome::Error(code) => SimReply::Error {
                code: Some(code),
                message: self.fault_message(match code {
                    203 => "Destination permanent failure",
                    205 => "Could not find a route",
                    206 => "Route too expensive",
                    210 => "Ran out of routes to try / stopped retrying",
                    _ => "pay failed",
                }),
                data: Some(json!({"attempts": []})),
            },
        };
        let rpc_id = self.pay_cmds[ci].rpc;
        let lt = self.pay_cmds[ci].lifetime;
        if lt == self.lifetime {
            for r in self.rpcs.iter_mut() {
                if r.id == rpc_id {
                    if let RpcState::WaitingCmd(_) = r.state {
                        r.state = RpcState::ReplyReady(reply.clone());
                    }
                }
            }
        }
        true
    }

    /// waitsendpay calls with a timeout give up with code 200 once it has elapsed.
    pub fn expire_waits(&mut self, now_ms: u64) -> u32 {
        let mut n = 0;
        for r in self.rpcs.iter_mut() {
            if let (RpcState::WaitingPart(_), Some(d)) = (&r.state, r.deadline_ms) {
                if now_ms >= d {
                    r.state = RpcState::ReplyReady(err(200, "Timed out while waiting"));
                    n += 1;
                }
            }
        }
        n
    }

    // ----- crash --------------------------------------------------------------

    /// Whole-node crash: RPCs in flight vanish, pay commands die, HTLCs that
    /// were in flight (or whose answer did not reach the node) are held again.
    pub fn crash(&mut self, lose_answers_since_step: Option<u64>) {
        for c in self.pay_cmds.iter_mut() {
            if c.state == CmdState::Running {
                c.state = CmdState::Dead;
            }
        }
        self.rpcs.clear();
        for h in self.htlcs.iter_mut() {
            match h.state {
                HtlcState::InFlight(_) => h.state = HtlcState::Offered,
                HtlcState::Gone => {}
                HtlcState::Offered => {}
            }
        }
        if let Some(step) = lose_answers_since_step {
            // Answers written in or after `step` never reached the node.
            let lt = self.lifetime;
            let mut lost = Vec::new();
            for c in self.calls.iter() {
                if c.lifetime == lt {
                    if let Some(s) = c.answered_step {
                        if s >= step {
                            lost.push(c.hid);
                        }
                    }
                }
            }
            for hid in lost {
                let h = &mut self.htlcs[hid as usize];
                if h.state == HtlcState::Gone {
                    h.state = HtlcState::Offered;
                    h.final_answer = None;
                }
            }
        }
        self.outage = false;
        self.notif_queue.clear();
        self.lifetime += 1;
        self.tick();
    }
}

pub fn parse_amount(v: &Value) -> Option<u64> {
    if let Some(u) = v.as_u64() {
        return Some(u);
    }
    let s = v.as_str()?;
    let s = s.strip_suffix("msat").unwrap_or(s);
    s.parse().ok()
}
