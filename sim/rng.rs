//! Own PRNG (SplitMix64 seeding + xoshiro256**). No crate, no global state,
//! identical on every platform. Two independent streams per run are derived
//! from the run seed (DESIGN.md 4.2).

#[derive(Clone, Debug)]
pub struct Rng {
    s: [u64; 4],
}

pub fn splitmix(x: &mut u64) -> u64 {
    *x = x.wrapping_add(0x9E37_79B9_7F4A_7C15);
    let mut z = *x;
    z = (z ^ (z >> 30)).wrapping_mul(0xBF58_476D_1CE4_E5B9);
    z = (z ^ (z >> 27)).wrapping_mul(0x94D0_49BB_1331_11EB);
    z ^ (z >> 31)
}

/// Mix a base seed and an index into a run seed.
pub fn mix(a: u64, b: u64) -> u64 {
    let mut x = a ^ b.wrapping_mul(0xD6E8_FEB8_6659_FD93).rotate_left(17);
    let r1 = splitmix(&mut x);
    let r2 = splitmix(&mut x);
    r1 ^ r2.rotate_left(29)
}

impl Rng {
    pub fn new(seed: u64) -> Self {
        let mut x = seed;
        let s = [
            splitmix(&mut x),
            splitmix(&mut x),
            splitmix(&mut x),
            splitmix(&mut x),
        ];
        Rng { s }
    }

    pub fn next_u64(&mut self) -> u64 {
        let result = self.s[1].wrapping_mul(5).rotate_left(7).wrapping_mul(9);
        let t = self.s[1] << 17;
        self.s[2] ^= self.s[0];
        self.s[3] ^= self.s[1];
        self.s[1] ^= self.s[2];
        self.s[0] ^= self.s[3];
        self.s[2] ^= t;
        self.s[3] = self.s[3].rotate_left(45);
        result
    }

    /// Uniform in 0..n (n > 0).
    pub fn below(&mut self, n: u64) -> u64 {
        debug_assert!(n > 0);
        // Multiply-shift; bias is irrelevant here.
        ((self.next_u64() as u128 * n as u128) >> 64) as u64
    }

    pub fn range(&mut self, lo: u64, hi_incl: u64) -> u64 {
        if hi_incl <= lo {
            return lo;
        }
        let span = hi_incl - lo;
        if span == u64::MAX {
            return self.next_u64();
        }
        lo + self.below(span + 1)
    }

    /// True with probability num/den.
    pub fn chance(&mut self, num: u64, den: u64) -> bool {
        self.below(den) < num
    }

    /// True with probability p (per mille).
    pub fn permille(&mut self, p: u32) -> bool {
        self.below(1000) < p as u64
    }

    pub fn pick<'a, T>(&mut self, xs: &'a [T]) -> &'a T {
        &xs[self.below(xs.len() as u64) as usize]
    }

    pub fn pick_weighted(&mut self, weights: &[u32]) -> usize {
        let total: u64 = weights.iter().map(|w| *w as u64).sum();
        if total == 0 {
            return 0;
        }
        let mut r = self.below(total);
        for (i, w) in weights.iter().enumerate() {
            if r < *w as u64 {
                return i;
            }
            r -= *w as u64;
        }
        weights.len() - 1
    }

    pub fn shuffle<T>(&mut self, xs: &mut [T]) {
        for i in (1..xs.len()).rev() {
            let j = self.below(i as u64 + 1) as usize;
            xs.swap(i, j);
        }
    }
}

/// FNV-1a 64 used for event-log hashes and abstract trace/state ids.
#[derive(Clone, Copy, Debug)]
pub struct Fnv(pub u64);

impl Default for Fnv {
    fn default() -> Self {
        Fnv(0xcbf2_9ce4_8422_2325)
    }
}

impl Fnv {
    pub fn bytes(&mut self, b: &[u8]) {
        for x in b {
            self.0 ^= *x as u64;
            self.0 = self.0.wrapping_mul(0x0000_0100_0000_01B3);
        }
    }
    pub fn u64(&mut self, v: u64) {
        self.bytes(&v.to_le_bytes());
    }
    pub fn str(&mut self, s: &str) {
        self.bytes(s.as_bytes());
        self.bytes(&[0xff]);
    }
}
