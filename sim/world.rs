//! The part of the simulation state that oracles and schedulers may read:
//! configuration, node model, clocks, heights the plugin has been told.

use super::content::RunCfg;
use super::node::SimNode;
use super::reference::ClassCfg;

pub struct World {
    pub cfg: RunCfg,
    pub node: SimNode,
    pub step: u64,
    /// Virtual milliseconds since the start of the run (all lifetimes).
    pub now_ms: u64,
    pub lifetime_base_ms: u64,
    /// Heights the current lifetime has been told (DESIGN.md section 6).
    pub told_low: u32,
    pub told_all: u32,
    /// `told_low` / `told_all` as of the start of the current step (heights
    /// delivered within the step may or may not have been processed yet when
    /// another task of the same step reads the height).
    pub told_low_step_start: u32,
    pub told_all_step_start: u32,
    pub getinfo_replies_this_lifetime: u32,
    /// Injected wall-clock skew in seconds (sum of clock jumps).
    pub skew_s: i64,
    pub plugin_up: bool,
    pub init_acked: bool,
    pub main_result: Option<Result<(), String>>,
    /// Current op is part of the fault-free end phase.
    pub quiescing: bool,
    /// hash indices frozen by the scheduler (C14), as bit masks: `frozen_hard`
    /// = nothing at all is done for the hash, `frozen_soft` = only its
    /// outgoing payment stalls.
    pub frozen_hard: u32,
    pub frozen_soft: u32,
    /// step of the first freeze
    pub frozen_at_step: Option<u64>,
    /// E2 watcher: heights passed to new_block whose call has not completed yet.
    pub comp_pending_blocks: Vec<u32>,
    pub catchup: Option<(u32, u64)>,
    /// The current step delivers an undecodable block_added notification.
    pub step_malformed_notification: bool,
    /// Steps executed since the fault-free end phase began.
    pub steps_since_quiesce: u64,
    /// Undecodable notifications written to the current lifetime so far.
    pub malformed_notifications_sent: u64,
    /// Kinds of the operation executed in the current step.
    pub op_kind: &'static str,
    /// Were only non-trampoline HTLCs delivered by the current op?
    pub step_delivers_only_nontrampoline: bool,
    pub step_delivered_calls: Vec<usize>,
    /// An RPC reply was delivered or stdin fed in this step (things that may
    /// legitimately cause new RPCs).
    pub step_has_rpc_stimulus: bool,
}

impl World {
    pub fn class_cfg(&self) -> ClassCfg {
        ClassCfg {
            local_pubkey: super::content::pool().local_pubkey,
            allow_self_route_hints: !self.cfg.no_self_hints,
            require_hash_match: true,
        }
    }

    /// Nothing is done for this hash (its RPCs are withheld, its HTLCs not delivered).
    pub fn hard_frozen(&self, hix: usize) -> bool {
        hix < 32 && self.frozen_hard & (1 << hix) != 0
    }

    /// The outgoing payment of this hash never progresses.
    pub fn stalled(&self, hix: usize) -> bool {
        hix < 32 && (self.frozen_hard | self.frozen_soft) & (1 << hix) != 0
    }

    pub fn any_frozen(&self) -> bool {
        self.frozen_hard | self.frozen_soft != 0
    }

    /// Wall-clock seconds since the epoch as the plugin would read them now.
    pub fn wall_ms(&self) -> i128 {
        1_700_000_000_000i128 + self.now_ms as i128 + self.skew_s as i128 * 1000
    }
}
