//! Deterministic simulation harness for breez/trampoline (see /verif/DESIGN.md).
pub mod rng;
pub mod seam;

pub fn cli() -> i32 {
    std::env::set_var("RUST_BACKTRACE", "0");
    std::env::set_var("RUST_LIB_BACKTRACE", "0");
    std::env::set_var("CLN_PLUGIN_LOG", "trace");
    seam::install_panic_hook();
    let rt = tokio::runtime::Builder::new_current_thread()
        .enable_time()
        .start_paused(true)
        .rng_seed(tokio::runtime::RngSeed::from_bytes(b"seed"))
        .build()
        .unwrap();
    let mut ctx = seam::Ctx::new();
    ctx.log_enabled = true;
    seam::install(ctx);
    rt.block_on(async {
        seam::with(|c| c.wall.origin = Some(tokio::time::Instant::now()));
        tokio::spawn(async {
            let r = crate::main().await;
            seam::push_event(seam::PluginEvent::MainReturned(r.map_err(|e| format!("{:?}", e))));
        });
        let settle = || async {
            tokio::time::sleep(std::time::Duration::from_millis(1)).await;
            tokio::time::sleep(std::time::Duration::from_millis(1)).await;
        };
        let dump = || {
            for ev in seam::take_events() {
                match ev {
                    seam::PluginEvent::Stdout(b) => println!("OUT {}", String::from_utf8_lossy(&b).trim_end()),
                    other => println!("EV {:?}", other),
                }
            }
        };
        let send = |v: serde_json::Value| {
            let mut s = v.to_string().into_bytes();
            s.extend_from_slice(b"\n\n");
            let n = s.len();
            seam::stdin_push(&s, n);
        };
        settle().await; dump();
        send(serde_json::json!({"jsonrpc":"2.0","id":"a1","method":"getmanifest","params":{"allow-deprecated-apis":false}}));
        settle().await; dump();
        send(serde_json::json!({"jsonrpc":"2.0","id":"a2","method":"init","params":{"options":{},"configuration":{"lightning-dir":"/l","rpc-file":"lightning-rpc","startup":true,"network":"regtest","feature_set":{"init":"","node":"","channel":"","invoice":""}}}}));
        settle().await; dump();
    });
    seam::drop_subscriber();
    drop(rt);
    seam::uninstall();
    0
}
