//! Deterministic simulation harness for breez/trampoline (see /verif/DESIGN.md).
pub mod check;
pub mod cli;
pub mod content;
pub mod engine;
pub mod node;
pub mod ops;
pub mod oracle;
pub mod reference;
pub mod replay;
pub mod rng;
pub mod sched;
pub mod seam;
pub mod special;
pub mod world;

pub use cli::cli;
