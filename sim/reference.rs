//! Reference model pieces that restate the properties independently of the
//! plugin's code: BigSize/TLV splitter, fee predicate in 128-bit arithmetic,
//! request classifier (C10/C13), failure-message encodings, store decoding.

use std::str::FromStr;

use secp256k1::hashes::{sha256, Hash as _};
use serde_json::Value;

pub type H32 = [u8; 32];

pub fn sha256_of(b: &[u8]) -> H32 {
    sha256::Hash::hash(b).to_byte_array()
}

pub fn hex(b: &[u8]) -> String {
    hex::encode(b)
}

pub fn unhex(s: &str) -> Option<Vec<u8>> {
    hex::decode(s).ok()
}

pub fn h32(s: &str) -> Option<H32> {
    let v = unhex(s)?;
    if v.len() == 32 {
        let mut a = [0u8; 32];
        a.copy_from_slice(&v);
        Some(a)
    } else {
        None
    }
}

// ---------------------------------------------------------------------------
// BigSize / TLV (BOLT 1), written from the spec, not from src/tlv.rs
// ---------------------------------------------------------------------------

/// Reads a BigSize. Returns (value, bytes consumed). Non-minimal encodings are
/// accepted here (the plugin accepts them as well; canonical inputs never
/// contain them).
pub fn read_bigsize(b: &[u8]) -> Option<(u64, usize)> {
    let first = *b.first()?;
    match first {
        0xfd => {
            if b.len() < 3 {
                return None;
            }
            Some((u16::from_be_bytes([b[1], b[2]]) as u64, 3))
        }
        0xfe => {
            if b.len() < 5 {
                return None;
            }
            Some((u32::from_be_bytes([b[1], b[2], b[3], b[4]]) as u64, 5))
        }
        0xff => {
            if b.len() < 9 {
                return None;
            }
            let mut a = [0u8; 8];
            a.copy_from_slice(&b[1..9]);
            Some((u64::from_be_bytes(a), 9))
        }
        v => Some((v as u64, 1)),
    }
}

pub fn write_bigsize(out: &mut Vec<u8>, v: u64) {
    if v < 0xfd {
        out.push(v as u8);
    } else if v <= 0xffff {
        out.push(0xfd);
        out.extend_from_slice(&(v as u16).to_be_bytes());
    } else if v <= 0xffff_ffff {
        out.push(0xfe);
        out.extend_from_slice(&(v as u32).to_be_bytes());
    } else {
        out.push(0xff);
        out.extend_from_slice(&v.to_be_bytes());
    }
}

#[derive(Clone, Debug, PartialEq)]
pub struct Rec {
    pub typ: u64,
    pub value: Vec<u8>,
    /// Offset and length of the whole record (type+len+value) in the stream.
    pub start: usize,
    pub len: usize,
}

/// Splits a TLV stream (no length prefix) into records the way the plugin's
/// decoder is specified to: records are read while at least two bytes
/// remain; a trailing single byte is ignored; a truncated type/length or a
/// length running past the end is an error.
pub fn split_tlv(b: &[u8]) -> Result<Vec<Rec>, String> {
    let mut out = Vec::new();
    let mut p = 0usize;
    while b.len() - p >= 2 {
        let start = p;
        let (typ, n) = read_bigsize(&b[p..]).ok_or("truncated type")?;
        p += n;
        let (len, n) = read_bigsize(&b[p..]).ok_or("truncated length")?;
        p += n;
        let len = usize::try_from(len).map_err(|_| "length too large")?;
        if b.len() - p < len {
            return Err(format!("length {} past end {}", len, b.len() - p));
        }
        out.push(Rec {
            typ,
            value: b[p..p + len].to_vec(),
            start,
            len: p + len - start,
        });
        p += len;
    }
    Ok(out)
}

pub fn encode_tlv(recs: &[(u64, Vec<u8>)]) -> Vec<u8> {
    let mut out = Vec::new();
    for (t, v) in recs {
        write_bigsize(&mut out, *t);
        write_bigsize(&mut out, v.len() as u64);
        out.extend_from_slice(v);
    }
    out
}

/// `onion.payload` as lightningd hands it over: BigSize length prefix + stream.
pub fn with_length_prefix(stream: &[u8]) -> Vec<u8> {
    let mut out = Vec::new();
    write_bigsize(&mut out, stream.len() as u64);
    out.extend_from_slice(stream);
    out
}

pub fn tu64(v: &[u8]) -> Option<u64> {
    if v.len() > 8 {
        return None;
    }
    let mut a = [0u8; 8];
    a[8 - v.len()..].copy_from_slice(v);
    Some(u64::from_be_bytes(a))
}

pub fn tu64_min(v: u64) -> Vec<u8> {
    let b = v.to_be_bytes();
    let skip = b.iter().take_while(|x| **x == 0).count();
    b[skip..].to_vec()
}

// ---------------------------------------------------------------------------
// Fee predicate (C12) and failure messages
// ---------------------------------------------------------------------------

/// total >= amount + base + floor(amount*ppm/1e6), false when the right-hand
/// side exceeds 64 bits.
pub fn suff(total: u64, amount: u64, base: u32, ppm: u32) -> bool {
    let rhs: u128 = amount as u128 + base as u128 + (amount as u128 * ppm as u128) / 1_000_000u128;
    if rhs > u64::MAX as u128 {
        return false;
    }
    total as u128 >= rhs
}

pub fn msg_fee_insufficient(base: u32, ppm: u32, delta: u16) -> Vec<u8> {
    let mut v = vec![0x20, 0x1a];
    v.extend_from_slice(&base.to_be_bytes());
    v.extend_from_slice(&ppm.to_be_bytes());
    v.extend_from_slice(&delta.to_be_bytes());
    v
}

pub const MSG_TEMP_NODE: [u8; 2] = [0x20, 0x02];
pub const MSG_TEMP_TRAMPOLINE: [u8; 2] = [0x20, 0x19];

// ---------------------------------------------------------------------------
// Request classifier (C10 / C13)
// ---------------------------------------------------------------------------

#[derive(Clone, Debug, PartialEq)]
pub enum Class {
    /// The request JSON cannot be understood as an htlc_accepted call at all
    /// (bad hex, TLV record running past the end of onion.payload, ...). The
    /// property (C06) still demands continue / fail / resolve.
    Undecodable,
    /// Plain forward / no metadata / unusable metadata: must `continue`.
    NotTrampoline(&'static str),
    /// Well-formed trampoline metadata but the local node is the last hop of a
    /// route hint and that is disallowed: must fail with temporary_node_failure.
    SelfHintRefused,
    /// Trampoline metadata fine but the onion has no forward amount: `continue`.
    NoForwardAmount,
    Trampoline(Box<Tramp>),
}

#[derive(Clone, Debug, PartialEq)]
pub struct Tramp {
    /// Invoice payment hash (equals the HTLC's hash, by classification).
    pub hash: H32,
    pub bolt11: String,
    pub amount_msat: u64,
    pub invoice_has_amount: bool,
    pub payee: String,
    pub forward_msat: u64,
    /// Declared total: onion total_msat, else forward_msat.
    pub declared_total: u64,
}

pub struct ClassCfg {
    pub local_pubkey: secp256k1::PublicKey,
    pub allow_self_route_hints: bool,
    /// After the D1 repair a hash mismatch makes the HTLC non-trampoline. The
    /// property text (C10) demands exactly that.
    pub require_hash_match: bool,
}

/// Classifies the `params` object of an htlc_accepted request.
pub fn classify(params: &Value, cfg: &ClassCfg) -> Class {
    let onion = match params.get("onion") {
        Some(o) if o.is_object() => o,
        _ => return Class::Undecodable,
    };
    let htlc = match params.get("htlc") {
        Some(o) if o.is_object() => o,
        _ => return Class::Undecodable,
    };
    // Fields the request type requires.
    let payload_hex = match onion.get("payload").and_then(|v| v.as_str()) {
        Some(s) => s,
        None => return Class::Undecodable,
    };
    let payload = match unhex(payload_hex) {
        Some(p) => p,
        None => return Class::Undecodable,
    };
    let htlc_hash = match htlc
        .get("payment_hash")
        .and_then(|v| v.as_str())
        .and_then(unhex)
    {
        Some(h) => h,
        None => return Class::Undecodable,
    };
    for f in ["id", "amount_msat", "cltv_expiry"] {
        if htlc.get(f).and_then(|v| v.as_u64()).is_none() {
            return Class::Undecodable;
        }
    }
    if htlc.get("cltv_expiry").and_then(|v| v.as_u64()).unwrap() > u32::MAX as u64 {
        return Class::Undecodable;
    }
    if htlc
        .get("cltv_expiry_relative")
        .and_then(|v| v.as_i64())
        .is_none()
    {
        return Class::Undecodable;
    }
    if htlc
        .get("short_channel_id")
        .and_then(|v| v.as_str())
        .map(valid_scid)
        != Some(true)
    {
        return Class::Undecodable;
    }
    // Payload: length prefix, then the stream.
    let stream: &[u8] = if payload.is_empty() {
        &[]
    } else {
        match read_bigsize(&payload) {
            // The prefix is skipped; the plugin then parses whatever follows.
            Some((_l, n)) => &payload[n..],
            None => return Class::Undecodable,
        }
    };
    let recs = match split_tlv(stream) {
        Ok(r) => r,
        Err(_) => return Class::Undecodable,
    };
    let scid = onion.get("short_channel_id");
    if let Some(s) = scid {
        if !s.is_null() {
            match s.as_str() {
                Some(x) if valid_scid(x) => return Class::NotTrampoline("forward"),
                _ => return Class::Undecodable,
            }
        }
    }
    let opt_u64 = |name: &str| -> Result<Option<u64>, ()> {
        match onion.get(name) {
            None | Some(Value::Null) => Ok(None),
            Some(v) => v.as_u64().map(Some).ok_or(()),
        }
    };
    let forward_msat = match opt_u64("forward_msat") {
        Ok(v) => v,
        Err(_) => return Class::Undecodable,
    };
    let total_msat = match opt_u64("total_msat") {
        Ok(v) => v,
        Err(_) => return Class::Undecodable,
    };

    let meta = match recs.iter().find(|r| r.typ == 16) {
        Some(m) => m,
        None => return Class::NotTrampoline("no metadata"),
    };
    let inner = match split_tlv(&meta.value) {
        Ok(r) => r,
        Err(_) => return Class::NotTrampoline("metadata not a tlv stream"),
    };
    let inv_rec = match inner.iter().find(|r| r.typ == 33001) {
        Some(r) => r,
        None => return Class::NotTrampoline("no invoice record"),
    };
    let inv_str = match std::str::from_utf8(&inv_rec.value) {
        Ok(s) => s,
        Err(_) => return Class::NotTrampoline("invoice not utf8"),
    };
    let info = match invoice_info(inv_str, &cfg.local_pubkey) {
        Ok(i) => i,
        Err(why) => return Class::NotTrampoline(why),
    };
    let inv_hash: H32 = info.hash;
    if cfg.require_hash_match && inv_hash[..] != htlc_hash[..] {
        return Class::NotTrampoline("invoice hash differs from htlc hash");
    }
    let tlv_amount = inner
        .iter()
        .find(|r| r.typ == 33003)
        .and_then(|r| tu64(&r.value));
    let (amount, has_amount) = match (info.amount, tlv_amount) {
        (Some(a), Some(t)) if a == t => (a, true),
        (Some(_), Some(_)) => return Class::NotTrampoline("amount field disagrees with invoice"),
        (Some(a), None) => (a, true),
        (None, Some(t)) => (t, false),
        (None, None) => return Class::NotTrampoline("no amount anywhere"),
    };
    // Route-hint gate.
    if info.self_last_hop && !cfg.allow_self_route_hints {
        return Class::SelfHintRefused;
    }
    let forward = match forward_msat {
        Some(f) => f,
        None => return Class::NoForwardAmount,
    };
    Class::Trampoline(Box::new(Tramp {
        hash: inv_hash,
        bolt11: inv_str.to_string(),
        amount_msat: amount,
        invoice_has_amount: has_amount,
        payee: info.payee.clone(),
        forward_msat: forward,
        declared_total: total_msat.unwrap_or(forward),
    }))
}

/// What the reference needs to know about an invoice string. Parsing and
/// signature recovery cost ~0.2 ms, and a run sees the same few strings over
/// and over, so the result is memoised per thread (pure function of the string
/// and the fixed local node key).
#[derive(Clone, Debug)]
pub struct InvInfo {
    pub hash: H32,
    pub amount: Option<u64>,
    pub payee: String,
    pub self_last_hop: bool,
}

pub fn invoice_info(inv_str: &str, local: &secp256k1::PublicKey) -> Result<std::rc::Rc<InvInfo>, &'static str> {
    use std::cell::RefCell;
    use std::collections::HashMap;
    use std::rc::Rc;
    thread_local! {
        static CACHE: RefCell<HashMap<String, Result<Rc<InvInfo>, &'static str>>> = RefCell::new(HashMap::new());
    }
    if let Some(hit) = CACHE.with(|c| c.borrow().get(inv_str).cloned()) {
        return hit;
    }
    let res = invoice_info_uncached(inv_str, local).map(Rc::new);
    CACHE.with(|c| {
        let mut c = c.borrow_mut();
        if c.len() > 512 {
            c.clear();
        }
        c.insert(inv_str.to_string(), res.clone());
    });
    res
}

fn invoice_info_uncached(inv_str: &str, local: &secp256k1::PublicKey) -> Result<InvInfo, &'static str> {
    let signed = match lightning_invoice::SignedRawBolt11Invoice::from_str(inv_str) {
        Ok(s) => s,
        Err(_) => return Err("invoice does not parse"),
    };
    // Signature: recover the key and verify against it.
    let payee = match signed.recover_payee_pub_key() {
        Ok(k) => k.0,
        Err(_) => return Err("signature not recoverable"),
    };
    if !signed.check_signature() {
        return Err("signature invalid");
    }
    let invoice = match lightning_invoice::Bolt11Invoice::from_signed(signed) {
        Ok(i) => i,
        Err(_) => return Err("invoice semantically invalid"),
    };
    let self_last_hop = invoice.route_hints().iter().any(|h| {
        h.0.last()
            .map(|hop| hop.src_node_id == *local)
            .unwrap_or(false)
    });
    let payee_key = invoice.payee_pub_key().copied().unwrap_or(payee);
    Ok(InvInfo {
        hash: invoice.payment_hash().to_byte_array(),
        amount: invoice.amount_milli_satoshis(),
        payee: payee_key.to_string(),
        self_last_hop,
    })
}

fn valid_scid(s: &str) -> bool {
    let parts: Vec<&str> = s.split('x').collect();
    parts.len() == 3 && parts.iter().all(|p| p.parse::<u64>().is_ok())
}

/// Expected `payload` of a `continue` answer, if the plugin chooses to rewrite
/// (C13): the input stream without length prefix, minus the type-16 record.
pub fn stripped_payload(payload_with_prefix: &[u8]) -> Option<Vec<u8>> {
    if payload_with_prefix.is_empty() {
        return Some(Vec::new());
    }
    let (_l, n) = read_bigsize(payload_with_prefix)?;
    let stream = &payload_with_prefix[n..];
    let recs = split_tlv(stream).ok()?;
    let mut out = Vec::new();
    let mut removed = false;
    for r in &recs {
        if r.typ == 16 && !removed {
            removed = true;
            continue;
        }
        out.extend_from_slice(&stream[r.start..r.start + r.len]);
    }
    Some(out)
}

// ---------------------------------------------------------------------------
// Durable record decoding
// ---------------------------------------------------------------------------

#[derive(Clone, Debug, PartialEq)]
pub enum StoreKind {
    Absent,
    Free,
    Pending { attempt_id: String, secs: u64 },
    Succeeded(Vec<u8>),
    Garbage,
}

pub fn decode_store(s: Option<&str>) -> StoreKind {
    let s = match s {
        None => return StoreKind::Absent,
        Some(s) => s,
    };
    let v: Value = match serde_json::from_str(s) {
        Ok(v) => v,
        Err(_) => return StoreKind::Garbage,
    };
    if v.as_str() == Some("Free") {
        return StoreKind::Free;
    }
    if let Some(p) = v.get("Pending") {
        if let (Some(a), Some(t)) = (
            p.get("attempt_id").and_then(|x| x.as_str()),
            p.get("attempt_time_seconds").and_then(|x| x.as_u64()),
        ) {
            return StoreKind::Pending {
                attempt_id: a.to_string(),
                secs: t,
            };
        }
    }
    if let Some(p) = v.get("Succeeded") {
        if let Some(arr) = p.get("preimage").and_then(|x| x.as_array()) {
            let mut out = Vec::new();
            for b in arr {
                match b.as_u64() {
                    Some(x) if x < 256 => out.push(x as u8),
                    _ => return StoreKind::Garbage,
                }
            }
            return StoreKind::Succeeded(out);
        }
    }
    StoreKind::Garbage
}
