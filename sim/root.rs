// Included into the crate root of /repo/src/main.rs by hook H1a
// (`#[cfg(breez_trampoline_verif)] include!(env!("TRAMPOLINE_VERIF_HARNESS"))`).
// Everything else of the harness hangs off this one module.
#[path = "/verif/sim/mod.rs"]
pub mod verif;
