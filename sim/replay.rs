//! Replay files, minimisation and known findings (DESIGN.md section 7).

use serde::{Deserialize, Serialize};

use super::content::RunCfg;
use super::engine::Sim;
use super::ops::Op;
use super::oracle::Violation;
use super::sched::ScriptSched;

pub const HARNESS_VERSION: u32 = 4;

#[derive(Clone, Debug, Serialize, Deserialize)]
pub struct ReplayFile {
    pub harness_version: u32,
    pub engine: String,
    pub property: String,
    pub rule: String,
    pub key: String,
    pub seed: u64,
    pub cfg: RunCfg,
    pub ops: Vec<Op>,
    pub detail: String,
    pub loghash: String,
    pub original_ops: usize,
    pub note: String,
}

pub fn run_script(seed: u64, cfg: &RunCfg, ops: &[Op], dump: bool) -> Sim {
    let mut sim = Sim::new(seed, cfg.clone());
    if dump {
        sim.event_dump = Some(Vec::new());
    }
    let mut sched = ScriptSched::new(ops.to_vec());
    sim.run(&mut sched);
    sim
}

pub fn same(v: &Violation, prop: &str, rule: &str, key: &str) -> bool {
    v.prop == prop && v.rule == rule && v.key == key
}

/// Delta debugging over the op list, then simplification passes. A candidate
/// is kept iff the same (property, rule, key) fires.
pub fn minimise(
    seed: u64,
    cfg: &RunCfg,
    ops: &[Op],
    prop: &str,
    rule: &str,
    key: &str,
    budget: usize,
) -> Vec<Op> {
    let mut best: Vec<Op> = ops.to_vec();
    let mut runs = 0usize;
    let reproduces = |cand: &[Op], runs: &mut usize| -> bool {
        *runs += 1;
        let sim = run_script(seed, cfg, cand, false);
        sim.or.violations.iter().any(|v| same(v, prop, rule, key))
    };
    // Truncate after the violating step first: everything after it is noise,
    // except that end-of-run rules need the whole tail.
    let mut chunk = (best.len() / 2).max(1);
    while chunk >= 1 && runs < budget {
        let mut i = 0;
        let mut progressed = false;
        while i < best.len() && runs < budget {
            let end = (i + chunk).min(best.len());
            let mut cand = Vec::with_capacity(best.len());
            cand.extend_from_slice(&best[..i]);
            cand.extend_from_slice(&best[end..]);
            if !cand.is_empty() && reproduces(&cand, &mut runs) {
                best = cand;
                progressed = true;
            } else {
                i += chunk;
            }
        }
        if chunk == 1 && !progressed {
            break;
        }
        chunk = if chunk == 1 { 1 } else { chunk / 2 };
        if chunk == 1 && !progressed && best.len() <= 1 {
            break;
        }
    }
    // Simplification: drop faults from individual ops, prefer whole-message delivery.
    let mut i = 0;
    while i < best.len() && runs < budget {
        let simpler: Option<Op> = match &best[i] {
            Op::Apply {
                rpc,
                fault,
                deliver,
            } if *fault != super::node::RpcFault::None || !*deliver => Some(Op::Apply {
                rpc: rpc.clone(),
                fault: super::node::RpcFault::None,
                deliver: true,
            }),
            Op::Deliver { hids, release } if *release != u32::MAX => Some(Op::Deliver {
                hids: hids.clone(),
                release: u32::MAX,
            }),
            Op::Crash {
                lose_answers: true,
                down_s,
            } => Some(Op::Crash {
                lose_answers: false,
                down_s: *down_s,
            }),
            Op::Crash {
                lose_answers: false,
                down_s,
            } if *down_s != 1 => Some(Op::Crash {
                lose_answers: false,
                down_s: 1,
            }),
            Op::Time { ms } if *ms > 1 => Some(Op::Time { ms: 1 }),
            _ => None,
        };
        if let Some(s) = simpler {
            let mut cand = best.clone();
            cand[i] = s;
            if reproduces(&cand, &mut runs) {
                best = cand;
            }
        }
        i += 1;
    }
    best
}

pub fn write_replay(dir: &str, rf: &ReplayFile) -> std::io::Result<String> {
    std::fs::create_dir_all(dir)?;
    let path = format!(
        "{}/{}-{}-{}.json",
        dir,
        rf.property,
        rf.seed,
        &rf.loghash[..rf.loghash.len().min(8)]
    );
    std::fs::write(&path, serde_json::to_string_pretty(rf).unwrap())?;
    Ok(path)
}

// ---------------------------------------------------------------------------
// Known findings
// ---------------------------------------------------------------------------

#[derive(Clone, Debug, Serialize, Deserialize)]
pub struct Finding {
    pub property: String,
    pub rule: String,
    pub key: String,
    pub text: String,
}

#[derive(Clone, Debug, Serialize, Deserialize, Default)]
pub struct FindingsFile {
    #[serde(default)]
    pub findings: Vec<Finding>,
    #[serde(default)]
    pub fixed: Vec<String>,
}

pub fn load_findings(path: &str) -> FindingsFile {
    match std::fs::read_to_string(path) {
        Ok(s) => serde_json::from_str(&s).unwrap_or_default(),
        Err(_) => FindingsFile::default(),
    }
}

pub fn is_known<'a>(f: &'a FindingsFile, v: &Violation) -> Option<&'a Finding> {
    f.findings
        .iter()
        .find(|k| k.property == v.prop && k.rule == v.rule && k.key == v.key)
}
