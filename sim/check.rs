//! `trampsim check <ID> quick|thorough`: seeded search over schedules and
//! fault sequences on all cores, violation handling (minimise, replay file,
//! known findings), evidence (DESIGN.md sections 7, 8, 10).

use std::collections::{BTreeMap, HashSet};
use std::sync::atomic::{AtomicBool, AtomicU64, Ordering};
use std::sync::Mutex;
use std::time::Instant;

use serde_json::{json, Value};

use super::content::RunCfg;
use super::engine::Sim;
use super::ops::Op;
use super::oracle::Violation;
use super::replay::{self, ReplayFile};
use super::rng::{mix, Rng};
use super::sched::{profile_cfg, RandomSched};

pub const DEFAULT_SEED: u64 = 20260927;

#[derive(Clone, Debug)]
pub struct Plan {
    pub prop: &'static str,
    /// (profile, weight, probe)
    pub profiles: Vec<(&'static str, u32, bool)>,
    pub quick_runs: u64,
    pub thorough_runs: u64,
    /// extra profiles only in the thorough tier
    pub thorough_profiles: Vec<(&'static str, u32, bool)>,
    /// reach keys whose presence makes a run non-trivial for this property
    pub antecedents: Vec<&'static str>,
    pub level: &'static str,
    pub rule_text: &'static str,
}

pub fn plan(prop: &str) -> Option<Plan> {
    let p = |prop: &'static str,
             profiles: Vec<(&'static str, u32, bool)>,
             thorough_profiles: Vec<(&'static str, u32, bool)>,
             antecedents: Vec<&'static str>,
             rule_text: &'static str| Plan {
        prop,
        profiles,
        quick_runs: 60_000,
        thorough_runs: 900_000,
        thorough_profiles,
        antecedents,
        level: "exploration",
        rule_text,
    };
    Some(match prop {
        "C01" => p(
            "C01",
            vec![("inputs", 3, false), ("faults", 2, false), ("crashy", 2, false), ("plain", 1, false), ("restart", 1, false)],
            vec![("reads", 1, false)],
            vec!["c01.resolve-seen"],
            "a run is non-trivial if at least one HTLC was settled (resolve) in it",
        ),
        "C02" => p(
            "C02",
            vec![("faults", 3, false), ("crashy", 3, false), ("restart", 2, false), ("overlap", 2, false), ("plain", 1, false), ("slowpath", 1, false)],
            vec![("reads", 3, false)],
            vec!["c02.fail-of-held-htlc"],
            "a run is non-trivial if a held trampoline HTLC was failed back in it",
        ),
        "C03" => p(
            "C03",
            vec![("plain", 2, false), ("mpp", 3, false), ("inputs", 2, false), ("crashy", 1, false), ("overlap", 1, false)],
            vec![],
            vec!["pay.issued"],
            "a run is non-trivial if a pay request was issued in it",
        ),
        "C04" => p(
            "C04",
            vec![("heights", 3, false), ("plain", 1, false), ("mpp", 2, false), ("inputs", 1, false)],
            vec![],
            vec!["c04.maxdelay-checked"],
            "a run is non-trivial if a pay request's maxdelay was compared with the held expiries",
        ),
        "C05" => p(
            "C05",
            vec![("crashy", 3, false), ("overlap", 4, false), ("restart", 2, false), ("faults", 2, false), ("slowpath", 1, false)],
            vec![("reads", 1, false)],
            vec!["pay.issued"],
            "a run is non-trivial if a pay request was issued in it",
        ),
        "C06" => p(
            "C06",
            vec![("inputs", 3, false), ("faults", 2, false), ("mpp", 2, false), ("wire", 1, false), ("plain", 1, false), ("reads", 1, false), ("config", 1, false), ("flood", 1, false)],
            vec![],
            vec!["tramp.delivered", "c13.nontrampoline-delivered", "c06.undecodable-delivered"],
            "a run is non-trivial if at least one hook call was delivered",
        ),
        "C07" => p(
            "C07",
            vec![("mpp", 4, false), ("inputs", 1, false), ("plain", 1, false), ("overlap", 1, false)],
            vec![],
            vec!["c07.multi-member-set-decided", "c07.doomed-set-decided"],
            "a run is non-trivial if a set with two or more HTLCs, or a rejected set, was decided",
        ),
        "C08" => Plan {
            level: "fault_enumeration",
            ..p(
                "C08",
                vec![("crashy", 3, false), ("overlap", 3, false), ("faults", 3, false), ("restart", 1, false), ("slowpath", 1, false)],
                vec![],
                vec!["c08.invariant-evaluated-with-live-part"],
                "a run is non-trivial if the record/part invariant was evaluated while a part was pending or complete",
            )
        },
        "C09" => Plan {
            level: "fault_enumeration",
            ..p(
                "C09",
                vec![("crashy", 3, true), ("faults", 3, true), ("restart", 2, true), ("overlap", 1, true)],
                vec![],
                vec!["c09.hash-probed"],
                "a run is non-trivial if a hash was probed after a crash or failed write touched it",
            )
        },
        "C10" => p(
            "C10",
            vec![("inputs", 5, false), ("plain", 1, false), ("mpp", 1, false)],
            vec![],
            vec!["tramp.delivered", "c13.nontrampoline-delivered", "c10.self-hint-refused-delivered"],
            "a run is non-trivial if a request was classified and answered",
        ),
        "C11" => p(
            "C11",
            vec![("mpp", 4, false), ("restart", 4, false), ("plain", 1, false)],
            vec![],
            vec!["c11.timeout-failure-timed"],
            "a run is non-trivial if an MPP-timeout failure was timed against the reference deadline",
        ),
        "C12" => p(
            "C12",
            vec![("inputs", 3, false), ("mpp", 3, false), ("plain", 1, false)],
            vec![],
            vec!["c12.policy-failure-seen", "c12.readiness-checked"],
            "a run is non-trivial if a fee-or-expiry-insufficient failure was produced or readiness was compared with the reference predicate",
        ),
        "C13" => p(
            "C13",
            vec![("inputs", 4, false), ("plain", 1, false), ("wire", 1, false), ("flood", 1, false)],
            vec![],
            vec!["c13.nontrampoline-delivered"],
            "a run is non-trivial if a non-trampoline HTLC was delivered",
        ),
        "C14" => p(
            "C14",
            vec![("isolation", 5, false), ("stallmany", 2, false), ("flood", 1, false)],
            vec![],
            vec!["c14.frozen-run-completed"],
            "a run is non-trivial if one hash was frozen and another one had HTLCs in flight",
        ),
        "C15" => Plan { quick_runs: 400_000, thorough_runs: 6_000_000, ..p(
            "C15",
            vec![("e2wait", 1, false)],
            vec![("e2wait-hostile", 1, false)],
            vec!["c15.wait-returned"],
            "a run is non-trivial if wait_payment returned (real PayPaymentProvider on the simulated RPC seam, parts resolving between its queries)",
        )},
        "C16" => Plan { quick_runs: 400_000, thorough_runs: 6_000_000, ..p(
            "C16",
            vec![("e2pay", 1, false)],
            vec![("e2pay-hostile", 1, false)],
            vec!["c16.pay-returned"],
            "a run is non-trivial if the pay wrapper returned (real PayPaymentProvider::pay against the pay-command model)",
        )},
        "C19" => Plan { quick_runs: 120_000, thorough_runs: 1_500_000, ..p(
            "C19",
            vec![("config", 1, false)],
            vec![],
            vec!["c19.configuration-evaluated"],
            "a run is non-trivial if an explicit option assignment was sent in init and the start-up decision compared with the reference validator",
        )},
        "C20" => Plan { quick_runs: 200_000, thorough_runs: 3_000_000, ..p(
            "C20",
            vec![("e2watch", 1, false)],
            vec![],
            vec!["c20.height-observed"],
            "a run is non-trivial if the height of the real BlockWatcher was read back after a height event",
        )},
        "C17" => p(
            "C17",
            vec![("wire", 4, false), ("inputs", 1, false), ("faults", 1, false), ("flood", 1, false)],
            vec![],
            vec!["tramp.delivered", "c13.nontrampoline-delivered"],
            "a run is non-trivial if hook calls were delivered (chunked) and answers parsed from the output stream",
        ),
        _ => return None,
    })
}

#[derive(Default)]
pub struct Agg {
    pub runs: u64,
    pub ops: u64,
    pub lifetimes: u64,
    pub virtual_ms: u64,
    pub calls: u64,
    pub answers: [u64; 5],
    pub reach: BTreeMap<&'static str, u64>,
    pub faults: BTreeMap<&'static str, u64>,
    pub per_profile: BTreeMap<String, u64>,
    pub traces_all: HashSet<u64>,
    pub traces_nontrivial: HashSet<u64>,
    pub nontrivial_runs: u64,
    pub states: HashSet<u64>,
    pub trans: HashSet<(u64, u64)>,
    pub other_violations: BTreeMap<(String, String), u64>,
    pub samples: Vec<Value>,
    pub target: Vec<(u64, u64, String, Violation)>,
    pub known_hits: BTreeMap<(String, String, String), (u64, String)>,
}

pub fn cfg_for(seed: u64, profile: &str) -> RunCfg {
    let mut content = Rng::new(mix(seed, 0xC0FFEE));
    profile_cfg(profile, &mut content)
}

pub fn run_random(seed: u64, profile: &str, probe: bool, dump: bool) -> Sim {
    let cfg = cfg_for(seed, profile);
    let mut sim = Sim::new(seed, cfg);
    if dump {
        sim.event_dump = Some(Vec::new());
    }
    if sim.w.cfg.mode == "watcher" {
        let mut sched = super::sched::WatcherSched::new(mix(seed, 0x5C4ED));
        sim.run(&mut sched);
    } else {
        let mut sched = RandomSched::new(mix(seed, 0x5C4ED), probe);
        sim.run(&mut sched);
    }
    sim
}

fn pick_profile(profiles: &[(&'static str, u32, bool)], idx: u64) -> (&'static str, bool) {
    let total: u64 = profiles.iter().map(|p| p.1 as u64).sum();
    let mut r = idx % total.max(1);
    for (name, w, probe) in profiles {
        if r < *w as u64 {
            return (name, *probe);
        }
        r -= *w as u64;
    }
    (profiles[0].0, profiles[0].2)
}

fn ops_sample(sim: &Sim, profile: &str, seed: u64) -> Value {
    let ops: Vec<String> = sim
        .ops_done
        .iter()
        .take(60)
        .map(|o| serde_json::to_string(o).unwrap())
        .collect();
    json!({
        "seed": seed,
        "profile": profile,
        "lifetimes": sim.stats.lifetimes,
        "ops_total": sim.ops_done.len(),
        "answers_continue_fail_resolve": [sim.stats.answers[0], sim.stats.answers[1], sim.stats.answers[2]],
        "ops_first_60": ops,
    })
}

pub struct CheckOutcome {
    pub agg: Agg,
    pub wall_s: f64,
    pub runs_planned: u64,
    pub profiles: Vec<(&'static str, u32, bool)>,
}

pub fn run_plan(plan: &Plan, tier: &str, base_seed: u64, findings: &replay::FindingsFile) -> CheckOutcome {
    let mut profiles = plan.profiles.clone();
    let n_runs = if tier == "thorough" {
        profiles.extend(plan.thorough_profiles.iter().cloned());
        plan.thorough_runs
    } else {
        plan.quick_runs
    };
    let n_runs = std::env::var("VERIF_RUNS")
        .ok()
        .and_then(|s| s.parse().ok())
        .unwrap_or(n_runs);
    let workers: usize = std::env::var("VERIF_WORKERS")
        .ok()
        .and_then(|s| s.parse().ok())
        .unwrap_or_else(|| {
            std::thread::available_parallelism()
                .map(|n| n.get())
                .unwrap_or(4)
        });
    let prop_seed = mix(base_seed, fxhash(plan.prop));
    let next = AtomicU64::new(0);
    let stop_after = AtomicU64::new(u64::MAX);
    let agg = Mutex::new(Agg::default());
    let t0 = Instant::now();
    let deadline_s: f64 = std::env::var("VERIF_MAX_SECONDS")
        .ok()
        .and_then(|s| s.parse().ok())
        .unwrap_or(if tier == "thorough" { 3000.0 } else { 600.0 });
    let timed_out = AtomicBool::new(false);
    std::thread::scope(|scope| {
        for _ in 0..workers {
            scope.spawn(|| {
                let mut local = Agg::default();
                loop {
                    let idx = next.fetch_add(1, Ordering::SeqCst);
                    if idx >= n_runs || idx > stop_after.load(Ordering::SeqCst) {
                        break;
                    }
                    if t0.elapsed().as_secs_f64() > deadline_s {
                        timed_out.store(true, Ordering::SeqCst);
                        break;
                    }
                    let seed = mix(prop_seed, idx);
                    let (profile, probe) = pick_profile(&profiles, idx);
                    let sim = run_random(seed, profile, probe, false);
                    local.runs += 1;
                    local.ops += sim.stats.ops;
                    local.lifetimes += sim.stats.lifetimes as u64;
                    local.virtual_ms += sim.stats.virtual_ms;
                    local.calls += sim.stats.calls;
                    for k in 0..5 {
                        local.answers[k] += sim.stats.answers[k];
                    }
                    for (k, v) in &sim.or.reach {
                        *local.reach.entry(k).or_insert(0) += v;
                    }
                    for (k, v) in &sim.stats.faults {
                        *local.faults.entry(k).or_insert(0) += v;
                    }
                    *local.per_profile.entry(profile.to_string()).or_insert(0) += 1;
                    local.traces_all.insert(sim.trace.0);
                    let nontrivial = plan
                        .antecedents
                        .iter()
                        .any(|a| sim.or.reach.get(a).copied().unwrap_or(0) > 0);
                    if nontrivial {
                        local.nontrivial_runs += 1;
                        if local.traces_nontrivial.insert(sim.trace.0) && local.samples.len() < 2 {
                            local.samples.push(ops_sample(&sim, profile, seed));
                        }
                    }
                    for s in &sim.abs_states {
                        local.states.insert(*s);
                    }
                    for t in &sim.abs_trans {
                        local.trans.insert(*t);
                    }
                    for v in &sim.or.violations {
                        if v.prop == plan.prop {
                            if let Some(k) = replay::is_known(findings, v) {
                                let e = local
                                    .known_hits
                                    .entry((v.prop.to_string(), v.rule.to_string(), v.key.clone()))
                                    .or_insert((0, k.text.clone()));
                                e.0 += 1;
                            } else {
                                local.target.push((idx, seed, profile.to_string(), v.clone()));
                                stop_after.fetch_min(idx, Ordering::SeqCst);
                            }
                        } else {
                            *local
                                .other_violations
                                .entry((v.prop.to_string(), v.rule.to_string()))
                                .or_insert(0) += 1;
                        }
                    }
                }
                let mut a = agg.lock().unwrap();
                a.runs += local.runs;
                a.ops += local.ops;
                a.lifetimes += local.lifetimes;
                a.virtual_ms += local.virtual_ms;
                a.calls += local.calls;
                for k in 0..5 {
                    a.answers[k] += local.answers[k];
                }
                for (k, v) in local.reach {
                    *a.reach.entry(k).or_insert(0) += v;
                }
                for (k, v) in local.faults {
                    *a.faults.entry(k).or_insert(0) += v;
                }
                for (k, v) in local.per_profile {
                    *a.per_profile.entry(k).or_insert(0) += v;
                }
                a.traces_all.extend(local.traces_all);
                a.traces_nontrivial.extend(local.traces_nontrivial);
                a.nontrivial_runs += local.nontrivial_runs;
                a.states.extend(local.states);
                a.trans.extend(local.trans);
                for (k, v) in local.other_violations {
                    *a.other_violations.entry(k).or_insert(0) += v;
                }
                for (k, v) in local.known_hits {
                    let e = a.known_hits.entry(k).or_insert((0, v.1.clone()));
                    e.0 += v.0;
                }
                if a.samples.len() < 3 {
                    a.samples.extend(local.samples);
                }
                a.target.extend(local.target);
            });
        }
    });
    let mut agg = agg.into_inner().unwrap();
    agg.target.sort_by_key(|t| t.0);
    agg.samples.truncate(3);
    if timed_out.load(Ordering::SeqCst) {
        agg.reach.insert("harness.wall-clock-cap-hit", 1);
    }
    CheckOutcome {
        agg,
        wall_s: t0.elapsed().as_secs_f64(),
        runs_planned: n_runs,
        profiles,
    }
}

pub fn fxhash(s: &str) -> u64 {
    let mut f = super::rng::Fnv::default();
    f.str(s);
    f.0
}

/// Builds the replay file for the first target violation: re-run, minimise, verify.
pub fn make_replay(seed: u64, profile: &str, probe: bool, v: &Violation) -> Result<(ReplayFile, String), String> {
    let cfg = cfg_for(seed, profile);
    // Re-run randomly to get the recorded op list.
    let sim = run_random(seed, profile, probe, false);
    let ops: Vec<Op> = sim.ops_done.clone();
    // The scripted re-run must reproduce.
    let s2 = replay::run_script(seed, &cfg, &ops, false);
    if !s2.or.violations.iter().any(|x| replay::same(x, v.prop, v.rule, &v.key)) {
        return Err(format!(
            "scripted replay of seed {} does not reproduce {} {} (harness determinism problem)",
            seed, v.prop, v.rule
        ));
    }
    let min = replay::minimise(seed, &cfg, &ops, v.prop, v.rule, &v.key, 1500);
    let s3 = replay::run_script(seed, &cfg, &min, false);
    let found = s3
        .or
        .violations
        .iter()
        .find(|x| replay::same(x, v.prop, v.rule, &v.key))
        .cloned()
        .ok_or_else(|| "minimised schedule does not reproduce".to_string())?;
    let rf = ReplayFile {
        harness_version: replay::HARNESS_VERSION,
        engine: "E1".into(),
        property: v.prop.to_string(),
        rule: v.rule.to_string(),
        key: v.key.clone(),
        seed,
        cfg,
        ops: min,
        detail: found.detail.clone(),
        loghash: format!("{:016x}", s3.log.0),
        original_ops: ops.len(),
        note: format!("profile {} probe {}", profile, probe),
    };
    let path = replay::write_replay(&replay_dir(), &rf).map_err(|e| e.to_string())?;
    Ok((rf, path))
}

pub fn replay_dir() -> String {
    std::env::var("VERIF_REPLAY_DIR").unwrap_or_else(|_| "/verif/replays".into())
}

pub fn components() -> Value {
    json!({
        "real": [
            "src/main.rs main() (option handling, wiring)", "src/plugin.rs", "src/cln_plugin/* (codec, driver loop, logging layer and writer task, options)",
            "src/htlc_manager.rs", "src/messages.rs", "src/tlv.rs", "src/store.rs ClnDatastore", "src/payment_provider.rs PayPaymentProvider",
            "src/block_watcher.rs", "tokio 1.38.0 current_thread runtime (paused clock, seeded); source from the cargo cache vendored under /verif/vendor/tokio with ONE added, cfg-guarded scheduling point (sync::Mutex::acquire may yield once on a seeded coin, vendor/tokio/src/verif_hook.rs) - used by the shadow crate only"
        ],
        "stub": [
            "src/rpc.rs Rpc: unix socket + call_typed replaced below the ClnRpc trait impl (same serde request/response mapping)",
            "stdin/stdout: in-memory pipes", "SystemTime::now(): simulated wall clock", "tracing global subscriber: per-thread set_default",
            "lightningd: SimNode model (datastore, sendpays, pay command, htlc_accepted replay)", "src/email.rs AWS SES: never reached (no email options configured)"
        ]
    })
}

pub fn assumptions() -> Vec<String> {
    vec![
        "SimNode is the trusted base: datastore modes/generation/error codes, listsendpays/waitsendpay/pay semantics as described in DESIGN.md 4.4".into(),
        "(a) once pay has replied the command creates no further parts; (b) 'failed' without warning only when no part of the hash is pending or complete; (c) 'complete' carries the preimage of a complete part; (d) a transport error on pay means the command never started; (e) preimages come only from the invoice's real preimage".into(),
        "whole-node crashes only (lightningd and plugin die together); datastore writes are atomic and durable once applied".into(),
        "physical HTLC amounts sum below 2^64 (at most 2.1e18 msat in total); declared fields are arbitrary u64".into(),
        "one OS thread per simulation: interleavings at await granularity (DESIGN.md section 12)".into(),
        "timing oracles carry 5 ms slack (two 1 ms settle ticks, 1 ms timer granularity)".into(),
    ]
}

pub fn write_evidence(plan: &Plan, tier: &str, seed: u64, out: &CheckOutcome, violations: usize, extra: Value) {
    let a = &out.agg;
    let wall = out.wall_s.max(0.001);
    let mut cov = json!({
        "evaluations": a.runs,
        "distinct_nontrivial": a.traces_nontrivial.len(),
        "rule": format!("each evaluation is one simulated execution (seeded schedule + fault sequence, real plugin code end to end); {}; distinct = distinct abstract traces (sequence of operation kinds, RPC methods with hash index, answer kinds) among the non-trivial runs", plan.rule_text),
        "samples": a.samples,
        "states": a.states.len(),
        "transitions": a.trans.len(),
        "nontrivial_runs": a.nontrivial_runs,
        "distinct_traces_all_runs": a.traces_all.len(),
        "runs_planned": out.runs_planned,
        "runs_per_hour": (a.runs as f64 / wall * 3600.0) as u64,
        "ops_executed": a.ops,
        "process_lifetimes": a.lifetimes,
        "simulated_seconds": a.virtual_ms / 1000,
        "hook_calls_delivered": a.calls,
        "answers": {"continue": a.answers[0], "fail": a.answers[1], "resolve": a.answers[2], "rpc_error": a.answers[3], "malformed": a.answers[4]},
        "profiles": a.per_profile,
        "faults_fired": a.faults,
        "reach_probes": a.reach,
        "violations_of_other_properties_seen": a.other_violations.iter().map(|((p, r), c)| format!("{} {} x{}", p, r, c)).collect::<Vec<_>>(),
        "known_findings_hit": a.known_hits.iter().map(|((p, r, k), (c, t))| json!({"property": p, "rule": r, "key": k, "count": c, "text": t})).collect::<Vec<_>>(),
        "components": components(),
        "exhaustive": false,
    });
    if let (Some(c), Some(e)) = (cov.as_object_mut(), extra.as_object()) {
        for (k, v) in e {
            c.insert(k.clone(), v.clone());
        }
    }
    let ev = json!({
        "property_id": plan.prop,
        "tier": tier,
        "seed": seed,
        "level": plan.level,
        "coverage": cov,
        "assumptions": assumptions(),
        "wall_s": out.wall_s,
        "violations": violations,
    });
    let dir = std::env::var("VERIF_EVIDENCE_DIR").unwrap_or_else(|_| "/verif/evidence".into());
    let _ = std::fs::create_dir_all(&dir);
    let _ = std::fs::write(
        format!("{}/{}.json", dir, plan.prop),
        serde_json::to_string_pretty(&ev).unwrap(),
    );
}

// ---------------------------------------------------------------------------
// Systematic sweep (DESIGN.md 4.7): every crash point and every single
// datastore write fault of a set of fault-free base scenarios.
// ---------------------------------------------------------------------------

pub struct SweepOutcome {
    pub bases: u64,
    pub crash_points: u64,
    pub write_faults: u64,
    pub runs: u64,
    pub probes_resolved: u64,
    pub probes_total: u64,
    pub c08_evaluations: u64,
    pub wall_s: f64,
    pub target: Vec<(u64, RunCfg, Vec<Op>, Violation)>,
    pub known: BTreeMap<(String, String, String), (u64, String)>,
    pub sample: Option<Value>,
}

pub fn run_sweep(prop: &'static str, base_seed: u64, n_bases: u64, findings: &replay::FindingsFile) -> SweepOutcome {
    use super::node::{Method, RpcFault};
    use super::sched::SweepSched;
    let t0 = Instant::now();
    let sweep_seed = mix(base_seed, 0x5EE9);
    // Base scenarios.
    let mut jobs: Vec<(u64, RunCfg, Vec<Op>, &'static str)> = Vec::new();
    let mut bases = 0;
    let mut crash_points = 0;
    let mut write_faults = 0;
    for b in 0..n_bases {
        let seed = mix(sweep_seed, b);
        let cfg = cfg_for(seed, "sweepbase");
        let mut sim = Sim::new(seed, cfg.clone());
        let mut sched = RandomSched::new(mix(seed, 0x5C4ED), false);
        sim.run(&mut sched);
        let ops: Vec<Op> = sim
            .ops_done
            .iter()
            .take_while(|o| !matches!(o, Op::QuiesceMark))
            .cloned()
            .collect();
        if ops.is_empty() {
            continue;
        }
        bases += 1;
        for k in 0..=ops.len() {
            for lose in [false, true] {
                let mut pre = ops[..k].to_vec();
                pre.push(Op::Crash {
                    lose_answers: lose,
                    down_s: 1,
                });
                jobs.push((seed, cfg.clone(), pre, "crash"));
                crash_points += 1;
            }
        }
        for (k, op) in ops.iter().enumerate() {
            if let Op::Apply { rpc, fault: RpcFault::None, .. } = op {
                if rpc.method == Method::Datastore {
                    for f in [RpcFault::Transport, RpcFault::AppliedButError] {
                        let mut pre = ops.clone();
                        pre[k] = Op::Apply {
                            rpc: rpc.clone(),
                            fault: f,
                            deliver: true,
                        };
                        jobs.push((seed, cfg.clone(), pre, "write-fault"));
                        write_faults += 1;
                    }
                }
            }
        }
    }
    let next = AtomicU64::new(0);
    let results = Mutex::new((0u64, 0u64, 0u64, 0u64, Vec::new(), BTreeMap::new(), None::<Value>));
    let workers = std::thread::available_parallelism().map(|n| n.get()).unwrap_or(4);
    std::thread::scope(|scope| {
        for _ in 0..workers {
            scope.spawn(|| loop {
                let i = next.fetch_add(1, Ordering::SeqCst) as usize;
                if i >= jobs.len() {
                    break;
                }
                let (seed, cfg, pre, kind) = &jobs[i];
                let mut sim = Sim::new(*seed, cfg.clone());
                let mut sched = SweepSched {
                    prefix: pre.clone(),
                    pos: 0,
                    tail: RandomSched::new_tail(mix(*seed, 0x7A11 + i as u64), true),
                };
                sim.run(&mut sched);
                let mut r = results.lock().unwrap();
                r.0 += 1;
                r.1 += sim.or.reach.get("c09.probe-resolved").copied().unwrap_or(0);
                r.2 += sim.or.reach.get("c09.hash-probed").copied().unwrap_or(0);
                r.3 += sim
                    .or
                    .reach
                    .get("c08.invariant-evaluated-with-live-part")
                    .copied()
                    .unwrap_or(0);
                if r.6.is_none() && *kind == "write-fault" {
                    r.6 = Some(json!({
                        "kind": kind, "seed": seed,
                        "ops": sim.ops_done.iter().take(50).map(|o| serde_json::to_string(o).unwrap()).collect::<Vec<_>>(),
                    }));
                }
                for v in &sim.or.violations {
                    if v.prop == prop {
                        if let Some(k) = replay::is_known(findings, v) {
                            let e = r
                                .5
                                .entry((v.prop.to_string(), v.rule.to_string(), v.key.clone()))
                                .or_insert((0u64, k.text.clone()));
                            e.0 += 1;
                        } else {
                            r.4.push((i, *seed, cfg.clone(), sim.ops_done.clone(), v.clone()));
                        }
                    }
                }
            });
        }
    });
    let (runs, resolved, probed, c08, mut target, known, sample) = results.into_inner().unwrap();
    target.sort_by_key(|t| t.0);
    SweepOutcome {
        bases,
        crash_points,
        write_faults,
        runs,
        probes_resolved: resolved,
        probes_total: probed,
        c08_evaluations: c08,
        wall_s: t0.elapsed().as_secs_f64(),
        target: target.into_iter().map(|(_, s, c, o, v)| (s, c, o, v)).collect(),
        known,
        sample,
    }
}

/// Replay file for a violation found with an explicit op list.
pub fn make_replay_from_ops(seed: u64, cfg: &RunCfg, ops: &[Op], v: &Violation, note: &str) -> Result<(ReplayFile, String), String> {
    let s2 = replay::run_script(seed, cfg, ops, false);
    if !s2.or.violations.iter().any(|x| replay::same(x, v.prop, v.rule, &v.key)) {
        return Err(format!("scripted replay does not reproduce {} {}", v.prop, v.rule));
    }
    let min = replay::minimise(seed, cfg, ops, v.prop, v.rule, &v.key, 1500);
    let s3 = replay::run_script(seed, cfg, &min, false);
    let found = s3
        .or
        .violations
        .iter()
        .find(|x| replay::same(x, v.prop, v.rule, &v.key))
        .cloned()
        .ok_or_else(|| "minimised schedule does not reproduce".to_string())?;
    let rf = ReplayFile {
        harness_version: replay::HARNESS_VERSION,
        engine: "E1".into(),
        property: v.prop.to_string(),
        rule: v.rule.to_string(),
        key: v.key.clone(),
        seed,
        cfg: cfg.clone(),
        ops: min,
        detail: found.detail.clone(),
        loghash: format!("{:016x}", s3.log.0),
        original_ops: ops.len(),
        note: note.to_string(),
    };
    let path = replay::write_replay(&replay_dir(), &rf).map_err(|e| e.to_string())?;
    Ok((rf, path))
}
