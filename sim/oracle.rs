//! Oracles: every property's invariants, evaluated against SimNode's ground
//! truth while a run proceeds (DESIGN.md sections 6 and 9). All oracles are
//! always on; a check reports only its own property.

use std::collections::BTreeMap;

use serde_json::Value;

use super::node::{Answer, Method, PartStatus, RpcState};
use super::reference::{self as rf, Class, StoreKind, H32};
use super::seam::SimReply;
use super::world::World;

#[derive(Clone, Debug)]
pub struct Violation {
    pub prop: &'static str,
    pub rule: &'static str,
    /// Causal fingerprint used to tell one finding of a (property, rule) from
    /// another (DESIGN.md section 7). Empty when the rule needs none.
    pub key: String,
    pub detail: String,
    pub step: u64,
    pub now_ms: u64,
}

/// Timing slack (DESIGN.md 4.1): two settle ticks + timer granularity.
pub const SLACK_MS: u64 = 5;
/// A funded set must have led to a payment attempt this long after the last
/// thing the plugin was waiting for (C12 readiness rule).
pub const READINESS_GRACE_MS: u64 = 1000;

/// Classification of an RPC into the lifecycle phase that issues it.
#[derive(Clone, Copy, Debug, PartialEq, Eq)]
pub enum RpcKind {
    Fetch,
    MarkerWrite,
    AttemptCreate,
    Pay,
    ListSendpays,
    WaitSendpay,
    MarkFailedAttempt,
    MarkFailedFree,
    MarkSucceededState,
    MarkSucceededAttempt,
    Getinfo,
    Other,
}

/// Key of C12 violations: does `amount * ppm` need more than 64 bits (while
/// the required total itself may well fit)?
pub fn fee_key(amount: u64, ppm: u32) -> String {
    if (amount as u128) * (ppm as u128) > u64::MAX as u128 {
        "fee-product-exceeds-64-bits".into()
    } else {
        String::new()
    }
}

pub fn rpc_kind(method: Method, params: &Value) -> RpcKind {
    match method {
        Method::Getinfo => RpcKind::Getinfo,
        Method::Listdatastore => RpcKind::Fetch,
        Method::Pay => RpcKind::Pay,
        Method::Listsendpays => RpcKind::ListSendpays,
        Method::Waitsendpay => RpcKind::WaitSendpay,
        Method::Datastore => {
            let key3 = params
                .get("key")
                .and_then(|k| k.as_array())
                .and_then(|k| k.get(3))
                .and_then(|k| k.as_str())
                .unwrap_or("");
            let s = params.get("string").and_then(|s| s.as_str()).unwrap_or("");
            if key3 == "state" {
                match rf::decode_store(Some(s)) {
                    StoreKind::Free => RpcKind::MarkFailedFree,
                    StoreKind::Pending { .. } => RpcKind::MarkerWrite,
                    StoreKind::Succeeded(_) => RpcKind::MarkSucceededState,
                    _ => RpcKind::Other,
                }
            } else if key3 == "attempts" {
                let v: Value = serde_json::from_str(s).unwrap_or(Value::Null);
                let completed = v.get("completed").and_then(|c| c.as_bool()).unwrap_or(false);
                let success = v.get("success").and_then(|c| c.as_bool()).unwrap_or(false);
                match (completed, success) {
                    (false, _) => RpcKind::AttemptCreate,
                    (true, false) => RpcKind::MarkFailedAttempt,
                    (true, true) => RpcKind::MarkSucceededAttempt,
                }
            } else {
                RpcKind::Other
            }
        }
        Method::Other => RpcKind::Other,
    }
}

/// Reference state of one table entry of the plugin (DESIGN.md section 6).
#[derive(Clone, Debug)]
pub struct Entry {
    pub hash: H32,
    pub created_step: u64,
    pub created_ms: u64,
    /// Member hook calls (indices into node.calls) in delivery order.
    pub members: Vec<usize>,
    pub bolt11: String,
    pub amount_msat: u64,
    pub sum: u128,
    pub funded: bool,
    pub funded_step: Option<u64>,
    pub funded_ms: Option<u64>,
    /// First rejection that arrived while the set was not funded.
    pub doomed: Option<(Vec<u8>, u64, &'static str)>,
    /// Rejection arrived after funding but possibly before the lifecycle
    /// consumed the ready signal: either outcome is legitimate.
    pub either: bool,
    pub fetch_issued: bool,
    pub fetch_reply: Option<Result<StoreKind, ()>>,
    pub fetch_reply_step: Option<u64>,
    pub fetch_reply_seq: Option<u64>,
    /// Start of the MPP wait.
    pub wait_start_ms: Option<u64>,
    /// Expected time left at wait start (ms), when known.
    pub time_left_ms: Option<u64>,
    /// Timing is not attributable (overlap with an older lifecycle's RPCs, read faults).
    pub timing_ambiguous: bool,
    pub marker_issued: bool,
    /// Some write of a new attempt (marker or attempt record) was issued.
    pub attempt_started: bool,
    pub pay_issued: bool,
    /// Snapshot at marker write: (min expiry lenient bound, told_low).
    /// Handler order within a delivery step is not determined (yield injection).
    pub order_ambiguous: bool,
    pub snap: Option<(u32, u32)>,
    /// (exact minimum expiry, HTLCs of other hashes were held) when unambiguous.
    pub snap_exact: Option<(u32, bool)>,
    /// This entry started on a Pending record (restart path).
    pub restart_path: bool,
    pub restart_wait_done: bool,
    /// last time an RPC reply for this hash was delivered while no attempt had
    /// been started (the plugin cannot have begun its final wait earlier)
    pub last_reply_ms: u64,
    /// the stored attempt time lay in the future when the restart wait began
    pub future_attempt: bool,
    /// An RPC of this entry's lifecycle returned an injected error.
    pub rpc_fault_seen: bool,
    pub fault_kinds: Vec<RpcKind>,
    pub first_answer: Option<Answer>,
    pub first_answer_step: Option<u64>,
    pub frozen_members: Vec<usize>,
}

pub struct Oracles {
    pub violations: Vec<Violation>,
    pub reach: BTreeMap<&'static str, u64>,
    pub entries: BTreeMap<H32, Entry>,
    /// Steps a C13-style "must answer in this step" expectation was set for.
    pub expect_now: Vec<(usize, u64, &'static str)>,
    /// RPCs issued in the current step that are not getinfo.
    pub step_new_rpcs: Vec<usize>,
    pub table_len_before: Option<usize>,
    pub panics: u64,
    pub pays_issued: u64,
    /// Hashes touched by any trampoline-class HTLC in this run.
    pub touched: Vec<H32>,
    /// Lifecycle RPCs of an older lifecycle still outstanding per hash (bookkeeping).
    pub notifications: Vec<(String, String, String)>,
    pub probe_results: Vec<(usize, bool)>,
    pub quick_read_faults: bool,
    /// Key of the first panic in the current lifetime (cause of later hangs).
    pub first_panic_key: Option<String>,
    /// E2: injected RPC faults in this run; watcher bookkeeping.
    pub startup_aborted: bool,
    pub notif_panics: u64,
    /// Virtual time of the last event concerning a hash (reply delivered, part
    /// resolved, HTLC delivered, RPC issued).
    pub last_activity_ms: BTreeMap<H32, u64>,
    pub e2_faults: u64,
    pub watch_told: u32,
    pub watch_last: u32,
    pub watch_observations: u64,
}

impl Oracles {
    pub fn new() -> Self {
        Oracles {
            violations: Vec::new(),
            reach: BTreeMap::new(),
            entries: BTreeMap::new(),
            expect_now: Vec::new(),
            step_new_rpcs: Vec::new(),
            table_len_before: None,
            panics: 0,
            pays_issued: 0,
            touched: Vec::new(),
            notifications: Vec::new(),
            probe_results: Vec::new(),
            quick_read_faults: false,
            first_panic_key: None,
            startup_aborted: false,
            notif_panics: 0,
            last_activity_ms: BTreeMap::new(),
            e2_faults: 0,
            watch_told: 0,
            watch_last: 0,
            watch_observations: 0,
        }
    }

    pub fn hit(&mut self, k: &'static str) {
        *self.reach.entry(k).or_insert(0) += 1;
    }

    /// With stdout back-pressure the moment at which the plugin *decided* an
    /// answer is not observable (the answer may sit in its output queue while
    /// the world moves on, and the reader stalls while the writer is blocked, so
    /// delivery is not observable either). Rules that compare an answer with
    /// the node state "at that moment", or that rely on set membership, are
    /// not evaluated in such runs; this is a static property of the run's
    /// workload profile, not a reaction to anything that happened in it.
    fn sound_under_backpressure(prop: &str, rule: &str) -> bool {
        !matches!(
            (prop, rule),
            ("C02", "fail-while-live")
                | ("C03", "released-while-paying")
                | ("C04", _)
                | ("C07", _)
                | ("C11", _)
                | ("C12", "first-htlc-rejection-late")
                | ("C12", "first-htlc-not-rejected-with-policy")
                | ("C12", "funded-set-not-paid")
                | ("C12", "rejected-although-sufficient")
                | ("C05", "paid-invoice-htlc-failed")
                | ("C13", "not-answered-immediately")
                | ("C13", "rpc-caused-by-non-trampoline")
                | ("C13", "state-retained")
                | ("C10", "not-answered-immediately")
                | ("C06", "mpp-deadline-missed")
                | ("C06", "table-entry-leaked")
        )
    }

    pub fn violate(&mut self, w: &World, prop: &'static str, rule: &'static str, detail: String) {
        self.violate_k(w, prop, rule, String::new(), detail)
    }

    pub fn violate_k(
        &mut self,
        w: &World,
        prop: &'static str,
        rule: &'static str,
        key: String,
        detail: String,
    ) {
        if w.cfg.backpressure && !Self::sound_under_backpressure(prop, rule) {
            self.hit("skipped.rule-not-evaluated-under-backpressure");
            return;
        }
        // C19: with an explicit option assignment, a value that is enforced
        // differently from the configured one is (also) a configuration fault.
        if w.cfg.raw_opts.is_some()
            && prop != "C19"
            && matches!(
                (prop, rule),
                ("C11", "failed-before-timeout")
                    | ("C11", "failed-late")
                    | ("C06", "panic")
                    | ("C06", "unanswered")
                    | ("C06", "mpp-deadline-missed")
                    | ("C04", "maxdelay-too-large")
                    | ("C04", "maxdelay-above-policy")
                    | ("C04", "maxdelay-missing")
                    | ("C12", "first-htlc-not-rejected-with-policy")
            )
        {
            let d = format!("configured value not applied ({} {}): {}", prop, rule, detail);
            self.violate_k(w, "C19", "configured-value-not-applied", String::new(), d);
        }
        // Keep the first few per (prop, rule) only.
        let n = self
            .violations
            .iter()
            .filter(|v| v.prop == prop && v.rule == rule && v.key == key)
            .count();
        if n < 3 {
            self.violations.push(Violation {
                prop,
                rule,
                key,
                detail,
                step: w.step,
                now_ms: w.now_ms,
            });
        }
    }

    // ------------------------------------------------------------------------
    // helpers
    // ------------------------------------------------------------------------

    /// Hook calls of class Trampoline(X) delivered to the current lifetime and unanswered.
    pub fn held_for<'a>(w: &'a World, x: &'a H32) -> impl Iterator<Item = usize> + 'a {
        w.node.held_calls().filter_map(move |(i, c)| match &c.class {
            Class::Trampoline(t) if &t.hash == x => Some(i),
            _ => None,
        })
    }

    fn tramp_of(w: &World, ci: usize) -> Option<&rf::Tramp> {
        match &w.node.calls[ci].class {
            Class::Trampoline(t) => Some(t),
            _ => None,
        }
    }

    // ------------------------------------------------------------------------
    // lifecycle hooks
    // ------------------------------------------------------------------------

    pub fn on_boot(&mut self, _w: &World) {
        self.first_panic_key = None;
        self.startup_aborted = false;
        self.notif_panics = 0;
        self.entries.clear();
        self.expect_now.clear();
        self.step_new_rpcs.clear();
        self.table_len_before = None;
    }

    /// C19: refuse to start iff the reference validator says so.
    pub fn on_boot_done(&mut self, w: &World) {
        if !w.init_acked && super::sched::config_must_refuse(&w.cfg) != Some(true) {
            self.violate(
                w,
                "C17",
                "handshake-not-completed",
                format!(
                    "getmanifest/init were written to the plugin's input (read in chunks of at most {} bytes) but init was never acknowledged (main returned {:?})",
                    match w.cfg.chunking { 2 => 1, 1 => 7, _ => usize::MAX },
                    w.main_result
                ),
            );
        }
        let must_refuse = match super::sched::config_must_refuse(&w.cfg) {
            Some(r) => r,
            None => return,
        };
        self.hit("c19.configuration-evaluated");
        let refused = !w.init_acked;
        if must_refuse {
            self.hit("c19.invalid-configuration");
        }
        if must_refuse && !refused {
            self.violate(
                w,
                "C19",
                "started-with-invalid-configuration",
                format!("the plugin acknowledged init although the configuration must be refused: {:?}", w.cfg.raw_opts),
            );
        }
        if !must_refuse && refused {
            self.violate(
                w,
                "C19",
                "refused-valid-configuration",
                format!("the plugin did not acknowledge init for a valid configuration: {:?} (main returned {:?})", w.cfg.raw_opts, w.main_result),
            );
        }
        if refused && w.main_result.is_none() && !self.startup_aborted {
            self.violate(
                w,
                "C19",
                "neither-started-nor-exited",
                "the plugin neither acknowledged init nor exited".into(),
            );
        }
    }

    pub fn on_crash(&mut self, _w: &World) {
        self.entries.clear();
        self.expect_now.clear();
    }

    pub fn on_manifest(&mut self, w: &World, v: &Value) {
        let hooks = v.pointer("/result/hooks").and_then(|h| h.as_array());
        let ok = hooks
            .map(|h| h.iter().any(|x| x.as_str() == Some("htlc_accepted")))
            .unwrap_or(false);
        if !ok {
            self.violate(
                w,
                "C17",
                "manifest",
                "getmanifest reply does not register htlc_accepted".into(),
            );
        }
    }

    pub fn on_panic(&mut self, w: &World, msg: &str) {
        if !w.init_acked && super::sched::config_must_refuse(&w.cfg) == Some(true) {
            // Aborting during start-up on an unusable option value is a way of
            // refusing to start; no request handler is involved (C06 n/a).
            self.hit("c19.refused-by-abort");
            self.startup_aborted = true;
            return;
        }
        if msg.contains("src/cln_plugin/mod.rs") && self.notif_panics < w.malformed_notifications_sent {
            self.notif_panics += 1;
            // The detached task of the block_added subscription unwraps its
            // handler's result; an undecodable notification kills that task
            // only. No hook call is involved and the plugin must go on (the
            // exit / unanswered rules watch that).
            self.hit("panic-in-notification-task");
            return;
        }
        self.panics += 1;
        let key = panic_key(msg);
        if self.first_panic_key.is_none() {
            self.first_panic_key = Some(key.clone());
        }
        self.violate_k(w, "C06", "panic", key, format!("plugin task panicked: {}", msg));
    }

    pub fn on_notification(&mut self, w: &World, dest: &str, hash: &str, invoice: &str) {
        self.notifications
            .push((dest.to_string(), hash.to_string(), invoice.to_string()));
        // C10: the failure notification names the key the signature verifies against.
        self.hit("c10.notification");
        match rf::invoice_info(invoice, &super::content::pool().local_pubkey) {
            Ok(inv) => {
                if inv.payee != dest {
                    self.violate(
                        w,
                        "C10",
                        "notification-payee",
                        format!(
                            "failure notification names payee {} but the invoice verifies against {}",
                            dest, inv.payee
                        ),
                    );
                }
                if rf::hex(&inv.hash) != hash {
                    self.violate(
                        w,
                        "C10",
                        "notification-hash",
                        format!("failure notification hash {} differs from invoice hash", hash),
                    );
                }
            }
            Err(_) => self.violate(
                w,
                "C10",
                "notification-invoice",
                "failure notification carries an unparsable invoice".into(),
            ),
        }
    }

    pub fn on_call_delivered(&mut self, w: &World, ci: usize) {
        let c = &w.node.calls[ci];
        let step = w.step;
        match &c.class {
            Class::NotTrampoline(_) | Class::NoForwardAmount => {
                self.hit("c13.nontrampoline-delivered");
                self.expect_now.push((ci, step, "C13"));
            }
            Class::SelfHintRefused => {
                self.hit("c10.self-hint-refused-delivered");
                self.expect_now.push((ci, step, "C10"));
            }
            Class::Undecodable => {
                self.hit("c06.undecodable-delivered");
            }
            Class::Trampoline(t) => {
                self.last_activity_ms.insert(t.hash, w.now_ms);
                self.hit("tramp.delivered");
                if !self.touched.contains(&t.hash) {
                    self.touched.push(t.hash);
                }
                let t = (**t).clone();
                self.entry_add_member(w, ci, &t);
            }
        }
    }

    fn entry_add_member(&mut self, w: &World, ci: usize, t: &rf::Tramp) {
        let c = &w.node.calls[ci];
        let h = w.node.htlc(c.hid);
        let cfg = &w.cfg;
        let amount = h.spec.amount_msat;
        let rel = c
            .params
            .pointer("/htlc/cltv_expiry_relative")
            .and_then(|v| v.as_i64())
            .unwrap_or(0);
        let is_new = !self.entries.contains_key(&t.hash);
        if is_new {
            self.entries.insert(
                t.hash,
                Entry {
                    hash: t.hash,
                    created_step: w.step,
                    created_ms: w.now_ms,
                    members: Vec::new(),
                    bolt11: t.bolt11.clone(),
                    amount_msat: t.amount_msat,
                    sum: 0,
                    funded: false,
                    funded_step: None,
                    funded_ms: None,
                    doomed: None,
                    either: false,
                    fetch_issued: false,
                    fetch_reply: None,
                    fetch_reply_step: None,
                    fetch_reply_seq: None,
                    wait_start_ms: None,
                    time_left_ms: None,
                    timing_ambiguous: false,
                    marker_issued: false,
                    attempt_started: false,
                    pay_issued: false,
                    order_ambiguous: false,
                    snap: None,
                    snap_exact: None,
                    restart_path: false,
                    restart_wait_done: false,
                    last_reply_ms: 0,
                    future_attempt: false,
                    rpc_fault_seen: false,
                    fault_kinds: Vec::new(),
                    first_answer: None,
                    first_answer_step: None,
                    frozen_members: Vec::new(),
                },
            );
            // Bookkeeping RPCs of an older lifecycle of this hash still in flight?
            let overlap = w.node.outstanding_rpcs().any(|(_, r)| r.hash == Some(t.hash));
            if overlap {
                self.hit("entry.created-while-old-lifecycle-bookkeeping");
                self.entries.get_mut(&t.hash).unwrap().timing_ambiguous = true;
            }
        }
        let policy_msg = rf::msg_fee_insufficient(cfg.policy_base, cfg.policy_ppm, cfg.policy_delta);
        let e = self.entries.get_mut(&t.hash).unwrap();
        // Rejections, in the order the handler evaluates them.
        let mut rejection: Option<(Vec<u8>, &'static str)> = None;
        if t.bolt11 != e.bolt11 || t.amount_msat != e.amount_msat {
            rejection = Some((rf::MSG_TEMP_TRAMPOLINE.to_vec(), "conflicting-info"));
        }
        if rejection.is_none() && rel < cfg.policy_delta as i64 {
            rejection = Some((policy_msg.clone(), "relative-expiry"));
        }
        if rejection.is_none()
            && !rf::suff(t.declared_total, t.amount_msat, cfg.policy_base, cfg.policy_ppm)
        {
            rejection = Some((policy_msg.clone(), "declared-total"));
        }
        // The conflicting-info check uses the *entry's* amount for the fee test in
        // the plugin? No: it uses the HTLC's own amount; mirrored above.
        if let Some((msg, why)) = rejection {
            if e.doomed.is_none() && !e.either {
                if e.funded {
                    // Ready was signalled before; whether the lifecycle already
                    // consumed it is not observable here in general.
                    if !e.attempt_started {
                        e.either = true;
                    }
                } else {
                    e.doomed = Some((msg, w.step, why));
                }
            }
        }
        // With yield injection at the table lock, handlers of HTLCs delivered in
        // the same step may run in either order: what the reference derives
        // from arrival order (which rejection came first, funded before or
        // after it) is then not determined.
        if cfg.f_yield > 0
            && e
                .members
                .iter()
                .any(|m| w.node.calls[*m].delivered_step == Some(w.step))
        {
            e.order_ambiguous = true;
        }
        e.members.push(ci);
        e.sum += amount as u128;
        if !e.funded
            && e.doomed.is_none()
            && rf::suff(
                u64::try_from(e.sum).unwrap_or(u64::MAX),
                e.amount_msat,
                cfg.policy_base,
                cfg.policy_ppm,
            )
        {
            e.funded = true;
            e.funded_step = Some(w.step);
            e.funded_ms = Some(w.now_ms);
        }
        let (doomed, funded) = (e.doomed.is_some(), e.funded);
        if doomed {
            self.hit("entry.doomed");
        }
        if funded {
            self.hit("entry.funded");
        }
    }

    pub fn on_rpc_issued(&mut self, w: &World, ri: usize) {
        if w.cfg.mode != "process" {
            return;
        }
        if let Some(x) = w.node.rpcs[ri].hash {
            self.last_activity_ms.insert(x, w.now_ms);
        }
        let r = &w.node.rpcs[ri];
        let kind = rpc_kind(r.method, &r.params);
        if r.method != Method::Getinfo {
            self.step_new_rpcs.push(ri);
        }
        let x = match r.hash {
            Some(x) => x,
            None => return,
        };
        // C13: no RPC for a hash no trampoline HTLC was delivered for.
        let any_tramp = w.node.calls.iter().any(|c| {
            c.lifetime == w.node.lifetime
                && c.delivered_step.is_some()
                && matches!(&c.class, Class::Trampoline(t) if t.hash == x)
        });
        if !any_tramp {
            self.violate(
                w,
                "C13",
                "rpc-for-non-trampoline",
                format!(
                    "RPC {:?} issued for hash {} although no trampoline-class HTLC for it was delivered to this process",
                    r.method,
                    rf::hex(&x)
                ),
            );
            // C10 as well: the plugin treats something as trampoline that the reference does not.
            self.violate(
                w,
                "C10",
                "treated-as-trampoline",
                format!(
                    "RPC {:?} for hash {}: the plugin acts as trampoline for an HTLC the reference classifier rejects",
                    r.method,
                    rf::hex(&x)
                ),
            );
        }
        if matches!(
            kind,
            RpcKind::MarkFailedAttempt
                | RpcKind::MarkFailedFree
                | RpcKind::MarkSucceededState
                | RpcKind::MarkSucceededAttempt
        ) {
            if let Some(e) = self.entries.get_mut(&x) {
                if e.fetch_reply.is_none() {
                    // Cannot come from this entry's lifecycle: an older one is
                    // still doing its bookkeeping.
                    e.timing_ambiguous = true;
                    *self.reach.entry("entry.old-lifecycle-bookkeeping-issued-later").or_insert(0) += 1;
                }
            }
        }
        match kind {
            RpcKind::Fetch => {
                if let Some(e) = self.entries.get_mut(&x) {
                    e.fetch_issued = true;
                }
            }
            RpcKind::MarkerWrite => self.on_marker_issued(w, ri, &x, true),
            // If an implementation writes the attempt record before the marker,
            // the payment parameters were computed no later than this write.
            RpcKind::AttemptCreate
                if self.entries.get(&x).map(|e| !e.attempt_started).unwrap_or(false) =>
            {
                self.on_marker_issued(w, ri, &x, false)
            }
            RpcKind::Pay => self.on_pay_issued(w, ri, &x),
            _ => {}
        }
    }

    /// Snapshot for C04 / C14 / C19: what the plugin can have seen of this
    /// hash's HTLCs and of the chain when it collected the parameters of the
    /// payment. Taken at the earliest moment the payment can be initiated (end
    /// of the step in which the set is funded and the stored state is known)
    /// or at the first write of the attempt, whichever comes first: HTLCs and
    /// blocks arriving later may or may not be reflected in the request.
    fn compute_snapshot(w: &World, x: &H32) -> ((u32, u32), Option<(u32, bool)>) {
        // Snapshot for C04: lenient bound on the minimum expiry the plugin saw.
        let mut min_earlier: Option<u32> = None;
        let mut max_this_step: Option<u32> = None;
        for ci in Self::held_for(w, x) {
            let c = &w.node.calls[ci];
            let exp = w.node.htlc(c.hid).expiry;
            if c.delivered_step == Some(w.step) {
                max_this_step = Some(max_this_step.map(|m| m.max(exp)).unwrap_or(exp));
            } else {
                min_earlier = Some(min_earlier.map(|m| m.min(exp)).unwrap_or(exp));
            }
        }
        // In a plain Deliver step the attempt was triggered by one of the HTLCs
        // delivered in it, so the plugin saw at least one of them. In a
        // multi-operation step the trigger may have been an RPC reply: then
        // only the HTLCs of earlier steps are certain.
        let bound = match (min_earlier, max_this_step) {
            (Some(e), Some(m)) if w.op_kind != "multi" => e.min(m),
            (Some(e), _) => e,
            (None, Some(m)) => m,
            (None, None) => u32::MAX,
        };
        let told_low = w.told_low_step_start;
        // Exact minimum, when at most one HTLC of this hash arrived in this step.
        let this_step = Self::held_for(w, x)
            .filter(|ci| w.node.calls[*ci].delivered_step == Some(w.step))
            .count();
        let exact = if this_step <= 1
            && (this_step == 0 || w.op_kind != "multi")
            && w.told_low == w.told_all
            && w.told_low_step_start == w.told_all
            && !w.cfg.backpressure
        {
            Some(bound)
        } else {
            None
        };
        let others_held = w
            .node
            .held_calls()
            .any(|(_, c)| matches!(&c.class, Class::Trampoline(t) if &t.hash != x));
        ((bound, told_low), exact.map(|m| (m, others_held)))
    }

    fn on_marker_issued(&mut self, w: &World, _ri: usize, x: &H32, is_marker: bool) {
        let (snap, snap_exact) = Self::compute_snapshot(w, x);
        if let Some(e) = self.entries.get_mut(x) {
            if e.attempt_started {
                // An earlier write of this attempt was already seen.
                e.marker_issued = e.marker_issued || is_marker;
                return;
            }
            e.marker_issued = is_marker;
            e.attempt_started = true;
            if e.snap.is_none() {
                e.snap = Some(snap);
                e.snap_exact = snap_exact;
            }
            if !e.funded && e.doomed.is_none() && !e.order_ambiguous {
                let (sum, amt) = (e.sum, e.amount_msat);
                self.violate(
                    w,
                    "C12",
                    "attempt-for-unfunded-set",
                    format!("payment attempt started for hash {} although the held HTLCs ({} msat) do not cover amount {} plus fee by the exact predicate", rf::hex(x), sum, amt),
                );
                self.violate(
                    w,
                    "C03",
                    "attempt-for-unfunded-set",
                    format!("payment attempt started for hash {} although the held HTLCs ({} msat) do not cover amount {} plus fee", rf::hex(x), sum, amt),
                );
            }
            let e = self.entries.get_mut(x).unwrap();
            if e.funded {
                *self.reach.entry("c12.readiness-checked").or_insert(0) += 1;
            }
            // C12c / C07: a doomed set never starts paying.
            if e.doomed.is_some() && !e.order_ambiguous {
                let why = e.doomed.as_ref().unwrap().2;
                self.violate(
                    w,
                    "C07",
                    "doomed-set-paid",
                    format!(
                        "payment attempt started for hash {} although an HTLC of the still-unfunded set was rejected ({})",
                        rf::hex(x),
                        why
                    ),
                );
                if why == "relative-expiry" {
                    self.violate(
                        w,
                        "C04",
                        "low-relative-expiry-paid",
                        format!("payment attempt started for hash {} although an HTLC with relative expiry below the policy delta arrived before the set was funded", rf::hex(x)),
                    );
                }
            }
        } else {
            self.violate(
                w,
                "C03",
                "attempt-without-held-htlcs",
                format!("in-flight marker written for hash {} while no HTLC set for it exists", rf::hex(x)),
            );
        }
    }

    fn on_pay_issued(&mut self, w: &World, ri: usize, x: &H32) {
        self.pays_issued += 1;
        self.hit("pay.issued");
        let r = &w.node.rpcs[ri];
        let cfg = &w.cfg;
        let p = &r.params;
        let bolt11 = p.get("bolt11").and_then(|b| b.as_str()).unwrap_or("");
        let amt_param = p.get("amount_msat").and_then(super::node::parse_amount);
        let maxfee = p.get("maxfee").and_then(super::node::parse_amount);
        let maxdelay = p.get("maxdelay").and_then(|m| m.as_u64());
        let retry_for = p.get("retry_for").and_then(|m| m.as_u64());

        // ---- C05: nothing live from an earlier attempt -------------------------
        let other_pay = w.node.rpcs.iter().enumerate().any(|(j, q)| {
            j != ri
                && q.method == Method::Pay
                && q.hash == Some(*x)
                && !matches!(q.state, RpcState::Done)
        });
        if w.node.has_complete(x) {
            self.violate(
                w,
                "C05",
                "pay-after-complete",
                format!("pay issued for hash {} although a part of an earlier attempt has completed (invoice already paid)", rf::hex(x)),
            );
        }
        if w.node.has_pending(x) || w.node.cmd_running(x) || other_pay {
            self.violate(
                w,
                "C05",
                "pay-while-pending",
                format!("pay issued for hash {} while an earlier attempt still has pending parts or a running pay command", rf::hex(x)),
            );
        }

        // ---- C03 / C10: amounts and budget --------------------------------------
        let held: Vec<usize> = Self::held_for(w, x).collect();
        if held.is_empty() {
            self.violate(
                w,
                "C03",
                "pay-without-held-htlcs",
                format!("pay issued for hash {} while no HTLC for it is held", rf::hex(x)),
            );
            return;
        }
        let s: u128 = held
            .iter()
            .map(|ci| w.node.htlc(w.node.calls[*ci].hid).spec.amount_msat as u128)
            .sum();
        let with_invoice: Vec<&rf::Tramp> = held
            .iter()
            .filter_map(|ci| Self::tramp_of(w, *ci))
            .filter(|t| t.bolt11 == bolt11)
            .collect();
        if with_invoice.is_empty() {
            self.violate(
                w,
                "C10",
                "pay-foreign-invoice",
                format!("pay issued with an invoice none of the held HTLCs for hash {} carries", rf::hex(x)),
            );
            return;
        }
        let t0 = with_invoice[0];
        let a: u64 = if t0.invoice_has_amount {
            if amt_param.is_some() {
                self.violate(
                    w,
                    "C03",
                    "amount-passed-for-fixed-invoice",
                    "pay carries amount_msat although the invoice has its own amount".into(),
                );
                self.violate(
                    w,
                    "C10",
                    "amount-passed-for-fixed-invoice",
                    "pay carries amount_msat although the invoice has its own amount".into(),
                );
            }
            t0.amount_msat
        } else {
            match amt_param {
                None => {
                    self.violate(
                        w,
                        "C03",
                        "amountless-without-amount",
                        "pay for an amountless invoice carries no amount_msat".into(),
                    );
                    t0.amount_msat
                }
                Some(a) => {
                    if !with_invoice.iter().any(|t| t.amount_msat == a) {
                        self.violate(
                            w,
                            "C03",
                            "amountless-wrong-amount",
                            format!("pay amount {} is not the sender-declared amount {}", a, t0.amount_msat),
                        );
                        self.violate(
                            w,
                            "C10",
                            "amountless-wrong-amount",
                            format!("pay amount {} is not the sender-declared amount {}", a, t0.amount_msat),
                        );
                    }
                    a
                }
            }
        };
        let s64 = u64::try_from(s).unwrap_or(u64::MAX);
        if !rf::suff(s64, a, cfg.policy_base, cfg.policy_ppm) {
            self.violate(
                w,
                "C03",
                "pay-underfunded",
                format!(
                    "pay issued for hash {} while held HTLCs total {} < amount {} + fee (base {}, ppm {})",
                    rf::hex(x), s, a, cfg.policy_base, cfg.policy_ppm
                ),
            );
        }
        match maxfee {
            Some(f) => {
                if (f as u128) > s.saturating_sub(a as u128) {
                    self.violate(
                        w,
                        "C03",
                        "maxfee-exceeds-budget",
                        format!("maxfee {} exceeds held total {} - amount {}", f, s, a),
                    );
                }
            }
            None => self.violate(w, "C03", "maxfee-missing", "pay without maxfee".into()),
        }
        // ---- C01(b): not paying on behalf of a foreign hash ----------------------
        // (classification already demands hash equality; see C10 / C13 rules)

        // ---- C04: maxdelay ----------------------------------------------------------
        let snap = self.entries.get(x).and_then(|e| e.snap);
        match (maxdelay, snap) {
            (Some(d), Some((minexp, told))) => {
                self.hit("c04.maxdelay-checked");
                let bound = (minexp as i64 - told as i64 - cfg.cltv_delta as i64).max(0) as u64;
                if d > bound {
                    self.violate(
                        w,
                        "C04",
                        "maxdelay-too-large",
                        format!(
                            "maxdelay {} > lowest held expiry {} - known height {} - safety delta {} = {}",
                            d, minexp, told, cfg.cltv_delta, bound
                        ),
                    );
                }
                if d > cfg.policy_delta as u64 {
                    self.violate(
                        w,
                        "C04",
                        "maxdelay-above-policy",
                        format!("maxdelay {} above the policy delta {}", d, cfg.policy_delta),
                    );
                }
                if bound < cfg.policy_delta as u64 {
                    self.hit("c04.expiry-bound-binding");
                }
                // C19: with one HTLC per set and a height that never moved the
                // value is determined exactly.
                // (An implementation may sample the height and the held HTLCs
                // anywhere between its first write and the pay request: the
                // exact comparisons apply only when neither moved meanwhile.)
                let min_now = Self::held_for(w, x).map(|ci| w.node.htlc(w.node.calls[ci].hid).expiry).min();
                let unmoved = w.told_low == w.told_all && told == w.told_all;
                if cfg.raw_opts.is_some() && unmoved && min_now == Some(minexp) && cfg.max_parts == 1 {
                    self.hit("c19.maxdelay-exact-checked");
                    let want = bound.min(cfg.policy_delta as u64);
                    if d != want {
                        self.violate(
                            w,
                            "C19",
                            "safety-margin-not-applied",
                            format!("maxdelay {} but min(lowest expiry {} - height {} - configured safety delta {}, policy delta {}) = {}", d, minexp, told, cfg.cltv_delta, cfg.policy_delta, want),
                        );
                    }
                }
                if bound == 0 {
                    self.hit("c04.floored-at-zero");
                }
                // C14: with HTLCs of other hashes held, the value must still be
                // exactly what this hash's own HTLCs determine.
                if let Some((exact_min, true)) = self.entries.get(x).and_then(|e| e.snap_exact) {
                    if unmoved && min_now == Some(exact_min) {
                        self.hit("c14.maxdelay-exact-with-other-hash-held");
                        let want = ((exact_min as i64 - told as i64 - cfg.cltv_delta as i64).max(0) as u64)
                            .min(cfg.policy_delta as u64)
                            .min(65535);
                        if d != want {
                            self.violate(
                                w,
                                "C14",
                                "maxdelay-depends-on-other-hash",
                                format!("maxdelay {} for hash {} but its own HTLCs (lowest expiry {}, height {}, safety delta {}, policy delta {}) determine {}; HTLCs of another hash are held at the same time", d, rf::hex(x), exact_min, told, cfg.cltv_delta, cfg.policy_delta, want),
                            );
                        }
                    }
                }
            }
            (None, _) => self.violate(w, "C04", "maxdelay-missing", "pay without maxdelay".into()),
            (Some(_), None) => {}
        }
        // ---- C08: the in-flight marker is durable before pay is issued ----------------
        self.hit("c08.pay-issued");
        if !matches!(w.node.store(x), StoreKind::Pending { .. }) {
            self.violate(
                w,
                "C08",
                "pay-issued-without-durable-marker",
                format!("pay issued for hash {} while the durable record says {:?}", rf::hex(x), w.node.store(x)),
            );
        }
        // ---- C19: retry_for --------------------------------------------------------
        if let Some(rf_) = retry_for {
            let want = cfg.payment_timeout.min(65535);
            if rf_ != want {
                self.violate(
                    w,
                    "C19",
                    "retry-for",
                    format!("retry_for {} but configured payment timeout {} (cap 65535)", rf_, cfg.payment_timeout),
                );
            }
        }
        if let Some(e) = self.entries.get_mut(x) {
            e.pay_issued = true;
            if !e.funded {
                // Reference says the set was never funded (C12c second half).
                // Reported by the sum check above (C03); also C12.
            }
        }
    }

    pub fn on_rpc_applied(&mut self, w: &World, ri: usize) {
        if w.cfg.mode != "process" {
            if w.node.rpcs[ri].fault.is_some() {
                self.e2_faults += 1;
            }
            return;
        }
        let r = &w.node.rpcs[ri];
        let kind = rpc_kind(r.method, &r.params);
        let applied = r.fault.is_none() || r.fault == Some("applied-but-error");
        if r.fault.is_some() {
            if let Some(x) = r.hash {
                if let Some(e) = self.entries.get_mut(&x) {
                    e.rpc_fault_seen = true;
                    e.timing_ambiguous = true;
                    e.fault_kinds.push(kind);
                }
            }
        }
        if !applied {
            return;
        }
        if let Some(x) = r.hash {
            match kind {
                RpcKind::Pay => {
                    // C08: marker durably written before pay reaches the node.
                    self.hit("c08.pay-applied");
                    match w.node.store(&x) {
                        StoreKind::Pending { .. } => {}
                        other => {
                            // An "already paid" short-circuit creates nothing.
                            let started = matches!(r.state, RpcState::WaitingCmd(_));
                            if started {
                                self.violate(
                                    w,
                                    "C08",
                                    "pay-applied-without-marker",
                                    format!(
                                        "pay for hash {} reached the node while the durable record says {:?}",
                                        rf::hex(&x), other
                                    ),
                                );
                            }
                        }
                    }
                }
                RpcKind::MarkFailedFree => {
                    let ok_write = matches!(&r.state, RpcState::ReplyReady(SimReply::Result(_)))
                        || r.fault == Some("applied-but-error");
                    if ok_write && w.node.store(&x) == StoreKind::Free {
                        self.hit("c08.free-written");
                        if w.node.has_pending(&x) || w.node.has_complete(&x) {
                            self.violate(
                                w,
                                "C08",
                                "free-over-live-part",
                                format!("free marker written for hash {} while a part is pending or complete", rf::hex(&x)),
                            );
                        }
                    }
                }
                RpcKind::MarkSucceededState => {
                    if let StoreKind::Succeeded(p) = w.node.store(&x) {
                        self.hit("c08.succeeded-written");
                        if rf::sha256_of(&p) != x {
                            self.violate(
                                w,
                                "C08",
                                "succeeded-wrong-preimage",
                                format!("succeeded record for hash {} holds a key that does not hash to it", rf::hex(&x)),
                            );
                        }
                    }
                }
                _ => {}
            }
        }
        self.on_effect(w, "rpc-applied");
    }

    /// C08 global invariant after every applied effect.
    pub fn on_effect(&mut self, w: &World, _what: &'static str) {
        if w.cfg.mode != "process" {
            return;
        }
        let mut seen: Vec<H32> = Vec::new();
        for p in &w.node.parts {
            if matches!(p.status, PartStatus::Pending | PartStatus::Complete) && !seen.contains(&p.hash) {
                seen.push(p.hash);
            }
        }
        for x in seen {
            self.hit("c08.invariant-evaluated-with-live-part");
            match w.node.store(&x) {
                StoreKind::Pending { .. } => {}
                StoreKind::Succeeded(p) => {
                    if rf::sha256_of(&p) != x {
                        self.violate(
                            w,
                            "C08",
                            "succeeded-wrong-preimage",
                            format!("succeeded record for hash {} holds a key that does not hash to it", rf::hex(&x)),
                        );
                    }
                }
                other => {
                    self.violate(
                        w,
                        "C08",
                        "record-understates",
                        format!(
                            "a part for hash {} is pending or complete while the durable record says {:?}",
                            rf::hex(&x), other
                        ),
                    );
                }
            }
        }
    }

    pub fn on_part_resolved(&mut self, w: &World, pi: usize) {
        self.last_activity_ms.insert(w.node.parts[pi].hash, w.now_ms);
        // Reach probe for D5: a part completes between the two listsendpays of one wait.
        let p = &w.node.parts[pi];
        if p.status == PartStatus::Complete {
            let mut issued = 0;
            let mut done = 0;
            for r in &w.node.rpcs {
                if r.method == Method::Listsendpays && r.hash == Some(p.hash) {
                    match r.state {
                        RpcState::Issued => issued += 1,
                        _ => done += 1,
                    }
                }
            }
            if issued >= 1 && done >= 1 {
                self.hit("d5.part-completed-between-listsendpays");
            }
        }
    }

    pub fn on_reply_delivered(&mut self, w: &World, ri: usize, reply: &SimReply) {
        if w.cfg.mode == "watcher" {
            if let (Method::Getinfo, SimReply::Result(v)) = (w.node.rpcs[ri].method, reply) {
                if let Some(h) = v.get("blockheight").and_then(|h| h.as_u64()) {
                    self.watch_told = self.watch_told.max(h as u32);
                    self.hit("c20.getinfo-reply-delivered");
                }
            }
            return;
        }
        let r = &w.node.rpcs[ri];
        let kind = rpc_kind(r.method, &r.params);
        let x = match r.hash {
            Some(x) => x,
            None => return,
        };
        let is_err = !matches!(reply, SimReply::Result(_));
        let mpp_ms = w.cfg.mpp_timeout.saturating_mul(1000);
        let wall_ms = w.wall_ms();
        let mut future_attempt = false;
        self.last_activity_ms.insert(x, w.now_ms);
        if let Some(e) = self.entries.get_mut(&x) {
            if !e.attempt_started {
                e.last_reply_ms = w.now_ms;
            }
            match kind {
                RpcKind::Fetch if e.fetch_reply.is_none() => {
                    e.fetch_reply_step = Some(w.step);
                    e.fetch_reply_seq = Some(w.node.seq);
                    if is_err {
                        e.fetch_reply = Some(Err(()));
                    } else if let SimReply::Result(v) = reply {
                        let s = v
                            .pointer("/datastore/0/string")
                            .and_then(|s| s.as_str());
                        let kind = rf::decode_store(s);
                        match &kind {
                            StoreKind::Free | StoreKind::Absent => {
                                e.wait_start_ms = Some(w.now_ms);
                                e.time_left_ms = Some(mpp_ms);
                            }
                            StoreKind::Pending { .. } => {
                                e.restart_path = true;
                            }
                            _ => {}
                        }
                        e.fetch_reply = Some(Ok(kind));
                    }
                }
                RpcKind::MarkFailedFree
                    if e.restart_path
                        && !e.restart_wait_done
                        && !e.attempt_started
                        && e.fetch_reply_seq.map(|q| r.issued_seq > q).unwrap_or(false) =>
                {
                    // End of the restart path's bookkeeping: the MPP wait starts now.
                    if !is_err {
                        e.restart_wait_done = true;
                        e.wait_start_ms = Some(w.now_ms);
                        if let Some(Ok(StoreKind::Pending { secs, .. })) = &e.fetch_reply {
                            if wall_ms < (*secs as i128) * 1000 {
                                future_attempt = true;
                                e.future_attempt = true;
                            }
                            let age_ms = (wall_ms - (*secs as i128) * 1000).max(0) as u128;
                            let left = (mpp_ms as u128).saturating_sub(age_ms) as u64;
                            e.time_left_ms = Some(left);
                        }
                    }
                }
                _ => {}
            }
        }
        if future_attempt {
            self.hit("c11.restart-wait-with-attempt-time-in-the-future");
        }
    }

    // ------------------------------------------------------------------------
    // E2 components
    // ------------------------------------------------------------------------

    pub fn on_component(&mut self, w: &World, label: &str, v: &Value) {
        let x = super::content::pool().hashes[0];
        let ok = v.get("ok").and_then(|o| o.as_bool()).unwrap_or(false);
        let pre = v
            .get("preimage")
            .and_then(|p| p.as_str())
            .and_then(rf::unhex);
        match label {
            "wait_payment" => {
                self.hit("c15.wait-returned");
                match (ok, pre) {
                    (true, Some(p)) => {
                        self.hit("c15.returned-preimage");
                        if rf::sha256_of(&p) != x || !w.node.has_complete(&x) {
                            self.violate(w, "C15", "preimage-without-complete-part", format!("wait_payment returned preimage {} but no part of the hash completed with it", rf::hex(&p)));
                        }
                    }
                    (true, None) => {
                        self.hit("c15.returned-none");
                        if w.node.has_pending(&x) || w.node.has_complete(&x) {
                            self.violate(
                                w,
                                "C15",
                                "none-while-live",
                                format!(
                                    "wait_payment reported 'no payment' while pending={} complete={}",
                                    w.node.has_pending(&x),
                                    w.node.has_complete(&x)
                                ),
                            );
                        }
                    }
                    (false, _) => {
                        self.hit("c15.returned-error");
                        if self.e2_faults == 0 {
                            self.violate(
                                w,
                                "C15",
                                "error-without-cause",
                                format!("wait_payment failed although every RPC was answered with a result or a documented part failure code: {}", v),
                            );
                        }
                    }
                }
            }
            "pay" => {
                self.hit("c16.pay-returned");
                match (ok, pre) {
                    (true, Some(p)) => {
                        self.hit("c16.returned-success");
                        if rf::sha256_of(&p) != x || !w.node.has_complete(&x) {
                            self.violate(w, "C16", "success-without-complete-part", format!("pay wrapper returned success with {} but no part of the hash completed with that preimage", rf::hex(&p)));
                        }
                    }
                    (true, None) => self.violate(w, "C16", "success-without-preimage", "pay wrapper returned success without preimage".into()),
                    (false, _) => {
                        self.hit("c16.returned-failure");
                        if w.node.has_pending(&x) || w.node.has_complete(&x) || w.node.cmd_running(&x) {
                            self.violate(
                                w,
                                "C16",
                                "failure-while-live",
                                format!(
                                    "pay wrapper returned failure ({}) while pending={} complete={} pay-running={}",
                                    v.get("error").and_then(|e| e.as_str()).unwrap_or(""),
                                    w.node.has_pending(&x),
                                    w.node.has_complete(&x),
                                    w.node.cmd_running(&x)
                                ),
                            );
                        }
                    }
                }
            }
            "new_block_done" => {
                if let Some(h) = v.as_u64() {
                    self.watch_told = self.watch_told.max(h as u32);
                    self.hit("c20.new-block-processed");
                }
            }
            "height" => {
                if let Some(h) = v.as_u64() {
                    let h = h as u32;
                    self.watch_observations += 1;
                    self.hit("c20.height-observed");
                    if h < self.watch_last {
                        self.violate(w, "C20", "height-decreased", format!("height went from {} to {}", self.watch_last, h));
                    }
                    if h != self.watch_told {
                        self.violate(
                            w,
                            "C20",
                            "height-not-max-of-told",
                            format!("height is {} but the maximum of all heights told so far is {}", h, self.watch_told),
                        );
                    }
                    if h > self.watch_last {
                        self.hit("c20.height-raised");
                    }
                    self.watch_last = h;
                }
            }
            _ => {}
        }
    }

    // ------------------------------------------------------------------------
    // answers
    // ------------------------------------------------------------------------

    pub fn on_answer(&mut self, w: &World, ci: usize) {
        let c = &w.node.calls[ci];
        let h = w.node.htlc(c.hid);
        let ans = c.answer.clone().unwrap();
        let cfg = &w.cfg;

        // ---- C06(2): well-formed ------------------------------------------------
        match &ans {
            Answer::RpcError(e) => self.violate(
                w,
                "C06",
                "error-reply",
                format!(
                    "hook call for htlc {} ({}) answered with a JSON-RPC error instead of continue/fail/resolve: {}",
                    c.hid, h.spec.tag, super::engine::truncate(&e.to_string(), 160)
                ),
            ),
            Answer::Malformed(e) => self.violate(
                w,
                "C06",
                "malformed-reply",
                format!("hook call for htlc {} answered with a malformed result: {}", c.hid, super::engine::truncate(&e.to_string(), 160)),
            ),
            _ => {}
        }

        // ---- C12(a): every 0x201a answer carries the configured policy ----------
        if let Answer::Fail(m) = &ans {
            if m.len() >= 2 && m[0] == 0x20 && m[1] == 0x1a {
                self.hit("c12.policy-failure-seen");
                let want = rf::msg_fee_insufficient(cfg.policy_base, cfg.policy_ppm, cfg.policy_delta);
                if *m != want {
                    self.violate(
                        w,
                        "C12",
                        "policy-encoding",
                        format!("fee-or-expiry-insufficient failure {} does not encode the configured policy {}", rf::hex(m), rf::hex(&want)),
                    );
                    self.violate(
                        w,
                        "C19",
                        "policy-encoding",
                        format!("advertised policy {} differs from the configured one {}", rf::hex(m), rf::hex(&want)),
                    );
                }
            }
        }

        // ---- C01: resolve only with a preimage of its own hash ---------------------
        if let Answer::Resolve(key) = &ans {
            self.hit("c01.resolve-seen");
            let hh = h.spec.htlc_hash;
            if rf::sha256_of(key) != hh || h.spec.hash_len != 32 {
                self.violate(
                    w,
                    "C01",
                    "preimage-mismatch",
                    format!(
                        "htlc {} with payment hash {} settled with a key hashing to {}",
                        c.hid,
                        rf::hex(&hh),
                        rf::hex(&rf::sha256_of(key))
                    ),
                );
            } else {
                let from_store = matches!(w.node.store(&hh), StoreKind::Succeeded(p) if &p == key);
                if !w.node.has_complete(&hh) && !from_store {
                    self.violate(
                        w,
                        "C01",
                        "preimage-without-payment",
                        format!("htlc {} settled although no outgoing part for {} completed and no durable record of one exists", c.hid, rf::hex(&hh)),
                    );
                }
            }
        }

        // ---- classification-driven expectations -------------------------------------
        match &c.class {
            Class::NotTrampoline(why) => {
                match &ans {
                    Answer::Continue(payload) => {
                        self.hit("c13.continue-seen");
                        if let Some(p) = payload {
                            self.hit("c13.payload-rewritten");
                            let input = rf::unhex(&h.spec.payload_hex).unwrap_or_default();
                            match rf::stripped_payload(&input) {
                                Some(want) if want == *p => {}
                                Some(want) => self.violate(
                                    w,
                                    "C13",
                                    "payload-rewrite",
                                    format!(
                                        "continue payload {} is not the input stream minus record 16 ({}) [{}]",
                                        super::engine::truncate(&rf::hex(p), 80),
                                        super::engine::truncate(&rf::hex(&want), 80),
                                        why
                                    ),
                                ),
                                None => {}
                            }
                        }
                    }
                    Answer::RpcError(_) | Answer::Malformed(_) => {}
                    other => {
                        self.violate(
                            w,
                            "C13",
                            "not-continue",
                            format!("non-trampoline htlc {} ({}: {}) answered {} instead of continue", c.hid, h.spec.tag, why, other.kind()),
                        );
                        self.violate(
                            w,
                            "C10",
                            "not-continue",
                            format!("htlc {} is not a trampoline request ({}) but was answered {}", c.hid, why, other.kind()),
                        );
                        if *why == "invoice hash differs from htlc hash" {
                            if let Answer::Resolve(_) = other {
                                self.violate(
                                    w,
                                    "C01",
                                    "foreign-hash-settled",
                                    format!("htlc {} carries an invoice for a different payment hash and was settled", c.hid),
                                );
                            }
                        }
                    }
                }
            }
            Class::NoForwardAmount => {
                if !matches!(ans, Answer::Continue(_) | Answer::RpcError(_) | Answer::Malformed(_)) {
                    self.violate(
                        w,
                        "C13",
                        "not-continue",
                        format!("htlc {} without forward amount answered {} instead of continue", c.hid, ans.kind()),
                    );
                }
            }
            Class::SelfHintRefused => {
                if ans != Answer::Fail(rf::MSG_TEMP_NODE.to_vec()) {
                    self.violate(
                        w,
                        "C10",
                        "self-hint-not-refused",
                        format!("htlc {} names the local node as last route-hint hop (disallowed) but was answered {}", c.hid, super::engine::short_answer(&ans)),
                    );
                }
            }
            Class::Undecodable => {}
            Class::Trampoline(t) => {
                let x = t.hash;
                if let Answer::Continue(_) = &ans {
                    self.violate(
                        w,
                        "C10",
                        "trampoline-continued",
                        format!("well-formed trampoline htlc {} answered continue", c.hid),
                    );
                    if w.node.live(&x) && !w.node.has_complete(&x) {
                        self.violate(
                            w,
                            "C03",
                            "released-while-paying",
                            format!("htlc {} counted for the payment of {} was released (continue) while the payment's fate is open", c.hid, rf::hex(&x)),
                        );
                    }
                }
                if let Answer::Fail(m) = &ans {
                    // ---- C02 -------------------------------------------------------
                    self.hit("c02.fail-of-held-htlc");
                    if w.node.live(&x) {
                        self.hit("c02.fail-while-live");
                        let key = match self.entries.get(&x) {
                            Some(e) => {
                                if matches!(e.fetch_reply, Some(Err(()))) {
                                    // D6 answers 2002 in the very step the read failed.
                                    if *m == rf::MSG_TEMP_NODE.to_vec() && e.fetch_reply_step == Some(w.step) {
                                        "stored-state-read-failed".to_string()
                                    } else {
                                        format!("after-stored-state-read-failed:{}", rf::hex(&m[..m.len().min(2)]))
                                    }
                                } else if e.fault_kinds.iter().any(|k| {
                                    matches!(k, RpcKind::ListSendpays | RpcKind::WaitSendpay)
                                }) {
                                    if e.pay_issued {
                                        "payment-status-read-failed-after-pay".to_string()
                                    } else {
                                        "payment-status-read-failed-on-restart".to_string()
                                    }
                                } else {
                                    String::new()
                                }
                            }
                            None => String::new(),
                        };
                        if w.node.has_complete(&x) {
                            self.violate_k(
                                w,
                                "C05",
                                "paid-invoice-htlc-failed",
                                key.clone(),
                                format!("htlc {} for hash {} was failed back ({}) although the invoice has been paid (a part completed): it must be settled from the known preimage", c.hid, rf::hex(&x), rf::hex(m)),
                            );
                        }
                        self.violate_k(
                            w,
                            "C02",
                            "fail-while-live",
                            key,
                            format!(
                                "htlc {} for hash {} failed back ({}) while pending={} complete={} pay-running={} pay-rpc-outstanding={}",
                                c.hid,
                                rf::hex(&x),
                                rf::hex(m),
                                w.node.has_pending(&x),
                                w.node.has_complete(&x),
                                w.node.cmd_running(&x),
                                w.node.pay_rpc_outstanding(&x)
                            ),
                        );
                    }
                }
                // A trampoline HTLC that starts a new set cannot be decided before
                // the stored state was read; an answer in its own delivery step
                // means it was refused on the spot (e.g. the self-route-hint
                // gate firing although self hints are allowed).
                if let Some(e) = self.entries.get(&x) {
                    let first_of_new_entry = e.members.first() == Some(&ci)
                        && e.created_step == w.step
                        && c.delivered_step == Some(w.step)
                        && e.fetch_reply.is_none();
                    if first_of_new_entry && !matches!(ans, Answer::Resolve(_)) {
                        let detail = format!(
                            "well-formed trampoline htlc {} (no rejection applies, self route hints {}) was answered {} in its delivery step, before any stored state was read",
                            c.hid,
                            if w.cfg.no_self_hints { "disallowed" } else { "allowed" },
                            super::engine::short_answer(&ans)
                        );
                        self.violate(w, "C10", "refused-on-the-spot", detail.clone());
                        if w.cfg.raw_opts.is_some() {
                            self.violate(w, "C19", "configured-value-not-applied", detail);
                        }
                    }
                }
                self.entry_on_answer(w, ci, &x, &ans);
            }
        }
    }

    fn entry_on_answer(&mut self, w: &World, ci: usize, x: &H32, ans: &Answer) {
        let backpressure = w.cfg.backpressure;
        let mpp_ms = w.cfg.mpp_timeout.saturating_mul(1000);
        let e = match self.entries.get_mut(x) {
            Some(e) => e,
            None => return,
        };
        if !e.members.contains(&ci) {
            return;
        }
        if e.first_answer.is_none() {
            e.first_answer = Some(ans.clone());
            e.first_answer_step = Some(w.step);
            if e.members.len() >= 2 {
                *self.reach.entry("c07.multi-member-set-decided").or_insert(0) += 1;
            }
            // Members delivered in earlier steps have provably reached the table.
            e.frozen_members = e
                .members
                .iter()
                .copied()
                .filter(|m| w.node.calls[*m].delivered_step.map(|s| s < w.step).unwrap_or(false) || *m == ci)
                .collect();
            let e = e.clone();
            self.check_entry_decision(w, &e, ans, mpp_ms, backpressure);
        } else {
            let first = e.first_answer.clone().unwrap();
            if *ans != first {
                self.violate(
                    w,
                    "C07",
                    "different-answers",
                    format!(
                        "HTLCs aggregated for hash {} received different answers: {} vs {}",
                        rf::hex(x),
                        super::engine::short_answer(&first),
                        super::engine::short_answer(ans)
                    ),
                );
            }
        }
    }

    /// Evaluated when the first member of an entry is answered.
    fn check_entry_decision(&mut self, w: &World, e: &Entry, ans: &Answer, mpp_ms: u64, backpressure: bool) {
        let x = &e.hash;
        let now = w.now_ms;
        // ---- C07: a doomed set is failed (or settled from an earlier payment) ---------
        if let (Some((msg, dstep, why)), false) = (&e.doomed, e.order_ambiguous) {
            self.hit("c07.doomed-set-decided");
            if let Answer::Resolve(_) = ans {
                // Allowed only from a pre-existing completed payment; C01 checks the key.
                self.hit("c07.doomed-but-resolved-from-earlier-payment");
            }
            // ---- C12(b): first HTLC of a payment with no earlier attempt on record ---
            let first = e.members.first().copied();
            let first_is_culprit = first
                .map(|m| w.node.calls[m].delivered_step == Some(*dstep) && e.members.iter().filter(|q| w.node.calls[**q].delivered_step == Some(*dstep)).count() == 1)
                .unwrap_or(false)
                && e.created_step == *dstep;
            let free_at_fetch = matches!(&e.fetch_reply, Some(Ok(StoreKind::Free)) | Some(Ok(StoreKind::Absent)));
            if first_is_culprit && free_at_fetch && mpp_ms != 0 && *why != "conflicting-info" {
                self.hit("c12.first-htlc-rejection-decided");
                match ans {
                    Answer::Fail(m) if m == msg => {
                        if e.fetch_reply_step != Some(w.step) && !backpressure {
                            self.violate(
                                w,
                                "C12",
                                "first-htlc-rejection-late",
                                format!("first HTLC for hash {} fails the policy ({}) but was answered in step {} rather than right after the stored state was read (step {:?})", rf::hex(x), why, w.step, e.fetch_reply_step),
                            );
                        }
                    }
                    other => {
                        self.violate(
                            w,
                            "C12",
                            "first-htlc-not-rejected-with-policy",
                            format!("first HTLC for hash {} fails the policy ({}) with no earlier attempt on record but was answered {} instead of {}", rf::hex(x), why, super::engine::short_answer(other), rf::hex(msg)),
                        );
                    }
                }
            }
        }
        // ---- C12(d): no policy rejection unless the exact test (or an expiry) calls for one
        if let Answer::Fail(m) = ans {
            let free_at_fetch = matches!(&e.fetch_reply, Some(Ok(StoreKind::Free)) | Some(Ok(StoreKind::Absent)));
            if m.len() >= 2
                && m[0] == 0x20
                && m[1] == 0x1a
                && e.doomed.is_none()
                && !e.either
                && !e.order_ambiguous
                && !e.attempt_started
                && free_at_fetch
                && mpp_ms != 0
            {
                self.violate_k(
                    w,
                    "C12",
                    "rejected-although-sufficient",
                    fee_key(e.amount_msat, w.cfg.policy_ppm),
                    format!("set for hash {} was answered with fee-or-expiry-insufficient ({}) although every declared total passes the exact test (amount {}, base {}, ppm {}) and no relative expiry is below the policy delta", rf::hex(x), rf::hex(m), e.amount_msat, w.cfg.policy_base, w.cfg.policy_ppm),
                );
            }
        }
        // ---- C11 / C12: timing of failures of never-funded sets -----------------------
        if backpressure {
            return;
        }
        let store_free_at_fetch = matches!(&e.fetch_reply, Some(Ok(StoreKind::Free)) | Some(Ok(StoreKind::Absent)));
        if let Answer::Fail(_) = ans {
            // A set that the exact predicate calls funded, with nothing on
            // record and no rejection, is paid - not failed back untried.
            if e.funded
                && e.doomed.is_none()
                && !e.either
                && !e.order_ambiguous
                && !e.timing_ambiguous
                && !e.attempt_started
                && !e.pay_issued
                && !e.rpc_fault_seen
                && store_free_at_fetch
                && w.cfg.mpp_timeout != 0
            {
                if let (Some(fm), Some(left)) = (e.funded_ms, e.time_left_ms) {
                    if fm.saturating_add(SLACK_MS) < e.created_ms.saturating_add(left) {
                        self.violate_k(
                            w,
                            "C12",
                            "funded-set-not-paid",
                            fee_key(e.amount_msat, w.cfg.policy_ppm),
                            format!("set for hash {} was failed back ({}) without a payment attempt although it was funded by the exact predicate at t={}ms, was not rejected and has no earlier attempt on record", rf::hex(x), super::engine::short_answer(ans), fm),
                        );
                    }
                }
            }
        }
        if let Answer::Fail(m) = ans {
            let is_timeout = *m == rf::MSG_TEMP_TRAMPOLINE.to_vec();
            if is_timeout && e.doomed.is_none() && !e.either && !e.order_ambiguous && !e.pay_issued && !e.attempt_started {
                // An MPP-timeout failure of a set that was never funded.
                if let (Some(ws), Some(left)) = (e.wait_start_ms, e.time_left_ms) {
                    if !e.timing_ambiguous {
                        self.hit("c11.timeout-failure-timed");
                        // Not before: the wait cannot have begun before the set's
                        // first HTLC was handed over. Not much later: it has begun
                        // once the last reply the plugin needed was delivered.
                        let earliest = e.created_ms.saturating_add(left);
                        let ws = ws.max(e.last_reply_ms);
                        let due = ws.saturating_add(left);
                        if !e.funded && now + SLACK_MS < earliest && store_free_at_fetch {
                            self.violate(
                                w,
                                "C11",
                                "failed-before-timeout",
                                format!("incomplete set for hash {} failed at t={}ms, before the MPP timeout elapsed (wait began {}ms, timeout {}ms)", rf::hex(x), now, ws, left),
                            );
                        }
                        if now > due.saturating_add(SLACK_MS) {
                            self.violate(
                                w,
                                "C11",
                                "failed-late",
                                format!("incomplete set for hash {} failed at t={}ms, later than wait start {}ms + {}ms", rf::hex(x), now, ws, left),
                            );
                        }
                        if e.restart_path {
                            self.hit("c11.restart-path-timed");
                            if e.future_attempt {
                                self.hit("c11.restart-path-timed-with-attempt-time-in-the-future");
                            }
                            if now > ws.saturating_add(mpp_ms).saturating_add(SLACK_MS) {
                                self.violate(
                                    w,
                                    "C11",
                                    "restart-grants-more-than-one-period",
                                    format!("after a restart the set for hash {} was failed {}ms after the wait began (timeout {}ms)", rf::hex(x), now - ws, mpp_ms),
                                );
                            }
                        }
                    }
                }
            }
        }
    }

    // ------------------------------------------------------------------------
    // step / run boundaries
    // ------------------------------------------------------------------------

    pub fn end_of_step(&mut self, w: &World) {
        let step = w.step;
        // ---- C04 snapshot at the earliest moment the payment can be initiated ------
        let ready: Vec<H32> = self
            .entries
            .iter()
            .filter(|(_, e)| {
                e.snap.is_none()
                    // (covered by what was handed over so far, whatever the
                    // reference thinks of rejections: with handlers running
                    // in either order the plugin may be ready regardless)
                    && rf::suff(
                        u64::try_from(e.sum).unwrap_or(u64::MAX),
                        e.amount_msat,
                        w.cfg.policy_base,
                        w.cfg.policy_ppm,
                    )
                    && !e.attempt_started
                    && e.first_answer.is_none()
                    && (matches!(&e.fetch_reply, Some(Ok(StoreKind::Free)) | Some(Ok(StoreKind::Absent))) || e.restart_wait_done)
            })
            .map(|(x, _)| *x)
            .collect();
        for x in ready {
            let (snap, snap_exact) = Self::compute_snapshot(w, &x);
            if let Some(e) = self.entries.get_mut(&x) {
                e.snap = Some(snap);
                e.snap_exact = snap_exact;
            }
            self.hit("c04.snapshot-before-first-write");
        }
        // ---- "answered in the delivery step" expectations (C13, C10 self-hint) -----
        let pending: Vec<(usize, u64, &'static str)> = std::mem::take(&mut self.expect_now);
        for (ci, s, prop) in pending {
            let c = &w.node.calls[ci];
            if c.lifetime != w.node.lifetime {
                continue;
            }
            if c.answer.is_none() {
                if w.cfg.backpressure && !w.quiescing {
                    // Output is throttled: cannot attribute. Re-arm.
                    self.expect_now.push((ci, s, prop));
                    continue;
                }
                if s <= step {
                    self.violate(
                        w,
                        prop,
                        "not-answered-immediately",
                        format!(
                            "htlc {} ({}) was not answered in the step it was delivered in (it must not wait on any external event)",
                            c.hid,
                            w.node.htlc(c.hid).spec.tag
                        ),
                    );
                }
            }
        }
        // ---- C13: a step that only delivered non-trampoline HTLCs causes no RPC ----
        if w.op_kind == "deliver" && w.step_delivers_only_nontrampoline && !w.step_delivered_calls.is_empty() {
            self.hit("c13.isolated-delivery-step");
            if let Some(ri) = self.step_new_rpcs.first() {
                let r = &w.node.rpcs[*ri];
                // RPCs caused by a timer inside the settle are attributed by subject hash.
                let delivered_hashes: Vec<H32> = w
                    .step_delivered_calls
                    .iter()
                    .map(|ci| w.node.htlc(w.node.calls[*ci].hid).spec.htlc_hash)
                    .collect();
                let culprit = match r.hash {
                    Some(h) => delivered_hashes.contains(&h) && !self.entries.contains_key(&h),
                    None => false,
                };
                if culprit {
                    self.violate(
                        w,
                        "C13",
                        "rpc-caused-by-non-trampoline",
                        format!("delivering only non-trampoline HTLCs caused RPC {:?}", r.method),
                    );
                }
            }
        }
        self.step_new_rpcs.clear();
        // ---- C07: all frozen members answered together --------------------------------
        if !w.cfg.backpressure || w.quiescing {
            let mut bad: Vec<(H32, usize)> = Vec::new();
            let mut remove: Vec<H32> = Vec::new();
            for (x, e) in self.entries.iter() {
                if let Some(s) = e.first_answer_step {
                    if s <= step {
                        for m in &e.frozen_members {
                            if w.node.calls[*m].answer.is_none() {
                                bad.push((*x, *m));
                            }
                        }
                        remove.push(*x);
                    }
                }
            }
            for (x, m) in bad {
                self.violate(
                    w,
                    "C07",
                    "member-left-unanswered",
                    format!(
                        "htlc {} aggregated for hash {} was not answered together with the rest of its set",
                        w.node.calls[m].hid,
                        rf::hex(&x)
                    ),
                );
            }
            // The entry is gone from the plugin's table; members delivered in the
            // decision step that were not answered start a new entry.
            for x in remove {
                let e = self.entries.remove(&x).unwrap();
                let leftovers: Vec<usize> = e
                    .members
                    .iter()
                    .copied()
                    .filter(|m| w.node.calls[*m].answer.is_none())
                    .collect();
                for m in leftovers {
                    if let Some(t) = Self::tramp_of(w, m) {
                        let t = t.clone();
                        self.hit("entry.same-step-leftover-starts-new-entry");
                        self.entry_add_member(w, m, &t);
                        if let Some(ne) = self.entries.get_mut(&x) {
                            ne.timing_ambiguous = true;
                        }
                    }
                }
            }
        }
        // ---- C12(c): a funded, unrejected set with no earlier attempt starts paying -----
        if !w.cfg.backpressure && w.cfg.mpp_timeout != 0 {
            let mut late: Vec<H32> = Vec::new();
            let mut checked = 0;
            for (x, e) in self.entries.iter() {
                if !e.funded || e.doomed.is_some() || e.either || e.order_ambiguous || e.attempt_started || e.first_answer.is_some() {
                    continue;
                }
                if !matches!(&e.fetch_reply, Some(Ok(StoreKind::Free)) | Some(Ok(StoreKind::Absent))) {
                    continue;
                }
                let (fs, rs) = match (e.funded_step, e.fetch_reply_step) {
                    (Some(a), Some(b)) => (a, b),
                    _ => continue,
                };
                // Funding at (or within the slack of) the MPP deadline: either branch may win.
                if let (Some(ws), Some(left), Some(fm)) = (e.wait_start_ms, e.time_left_ms, e.funded_ms) {
                    if fm + SLACK_MS >= ws.saturating_add(left) {
                        continue;
                    }
                }
                // The plugin may still be talking to the node about this
                // payment (an implementation may refresh the height or re-read
                // the state before it pays), or be a few task hops away from
                // its first write: the verdict waits until nothing is
                // outstanding and a second of virtual time has passed.
                if w.node.outstanding_rpcs().any(|(_, r)| r.hash == Some(*x) || r.hash.is_none()) {
                    continue;
                }
                let t0 = e.funded_ms.unwrap_or(0).max(e.last_reply_ms);
                if step >= fs.max(rs) && w.now_ms >= t0.saturating_add(READINESS_GRACE_MS) {
                    checked += 1;
                    late.push(*x);
                }
            }
            for _ in 0..checked {
                self.hit("c12.readiness-violated-or-pending");
            }
            for x in late {
                let key = self.entries.get(&x).map(|e| fee_key(e.amount_msat, w.cfg.policy_ppm)).unwrap_or_default();
                self.violate_k(
                    w,
                    "C12",
                    "funded-set-not-paid",
                    key,
                    format!("set for hash {} is funded by the exact predicate, was not rejected and has no earlier attempt on record, but no payment attempt was started within {} ms although nothing was outstanding", rf::hex(&x), READINESS_GRACE_MS),
                );
                if let Some(e) = self.entries.get_mut(&x) {
                    e.either = true;
                }
            }
        }
        // ---- C06(4): bounded liveness of never-funded sets -----------------------------
        if !w.cfg.backpressure {
            let mut late: Vec<(H32, u64, u64)> = Vec::new();
            for (x, e) in self.entries.iter() {
                if e.first_answer.is_some() || e.timing_ambiguous || e.order_ambiguous || e.attempt_started || e.pay_issued {
                    continue;
                }
                if let (Some(ws), Some(left)) = (e.wait_start_ms, e.time_left_ms) {
                    let ws = ws.max(e.last_reply_ms);
                    if !e.funded
                        && w.now_ms > ws.saturating_add(left).saturating_add(SLACK_MS)
                        && !w.node.live(x)
                        && !w.node.outstanding_rpcs().any(|(_, r)| r.hash == Some(*x))
                    {
                        late.push((*x, ws, left));
                    }
                }
            }
            for (x, ws, left) in late {
                self.violate(
                    w,
                    "C06",
                    "mpp-deadline-missed",
                    format!("set for hash {} still unanswered at t={}ms although the plugin began waiting at {}ms with {}ms left", rf::hex(&x), w.now_ms, ws, left),
                );
                self.violate(
                    w,
                    "C11",
                    "failed-late",
                    format!("incomplete set for hash {} still held at t={}ms, wait began {}ms, {}ms allowed", rf::hex(&x), w.now_ms, ws, left),
                );
                if let Some(e) = self.entries.get_mut(&x) {
                    e.timing_ambiguous = true;
                }
            }
        }
        // ---- C06(5) / C13: table size ---------------------------------------------------
        if !w.cfg.backpressure && w.plugin_up {
            if let Some(n) = super::seam::table_len() {
                let held_tramp = w
                    .node
                    .held_calls()
                    .filter(|(_, c)| matches!(c.class, Class::Trampoline(_)))
                    .count();
                if held_tramp == 0 && n > 0 {
                    self.violate(
                        w,
                        "C06",
                        "table-entry-leaked",
                        format!("{} table entries remain although no trampoline HTLC is held", n),
                    );
                    self.violate(
                        w,
                        "C13",
                        "state-retained",
                        format!("{} table entries remain although no trampoline HTLC is held", n),
                    );
                }
                if held_tramp == 0 {
                    self.hit("c06.table-empty-checked");
                }
            }
        }
    }

    /// An unanswered call only counts as hanging when the schedule really
    /// drained everything that could still answer it: nothing outstanding for
    /// its hash (for non-trampoline calls: nothing at all), no part pending, no
    /// pay command running, and virtual time advanced past every deadline since
    /// the last thing that happened for it. (A truncated schedule - as the
    /// minimiser produces - otherwise "reproduces" a hang trivially.)
    fn hung(&self, w: &World, ci: usize) -> bool {
        let c = &w.node.calls[ci];
        let delivered = match c.delivered_at_ms {
            Some(t) => t,
            None => return false,
        };
        let hx = match &c.class {
            Class::Trampoline(t) => Some(t.hash),
            _ => None,
        };
        let busy = match hx {
            Some(x) => {
                w.node.outstanding_rpcs().any(|(_, r)| r.hash == Some(x))
                    || w.node.has_pending(&x)
                    || w.node.cmd_running(&x)
            }
            None => false,
        };
        if busy {
            return false;
        }
        let last = hx
            .and_then(|x| self.last_activity_ms.get(&x).copied())
            .unwrap_or(0)
            .max(delivered);
        let wait = match hx {
            Some(_) => w.cfg.mpp_timeout.min(10_000_000).saturating_mul(1000).saturating_add(60_500),
            None => 2,
        };
        w.now_ms >= last.saturating_add(wait)
    }

    pub fn end_of_run(&mut self, w: &World) {
        // ---- C20: catch-up within one poll interval -------------------------------------
        if w.cfg.mode == "watcher" {
            if !w.plugin_up {
                return;
            }
            if let Some((h, at)) = w.catchup {
                if w.now_ms >= at + 60_000 {
                    self.hit("c20.catch-up-checked");
                    if self.watch_last < h {
                        self.violate(
                            w,
                            "C20",
                            "no-catch-up",
                            format!("{} ms after notifications stopped (polls answered promptly) the height is {} but the node was at {} then", w.now_ms - at, self.watch_last, h),
                        );
                    }
                }
            }
            return;
        }
        // ---- C09: recovery probes -------------------------------------------------------
        {
            let mut by_hash: BTreeMap<usize, Vec<&super::node::HtlcRec>> = BTreeMap::new();
            for h in w.node.htlcs.iter().filter(|h| h.is_probe) {
                by_hash.entry(h.spec.hash_ix).or_default().push(h);
            }
            let mut bad: Vec<(usize, String)> = Vec::new();
            for (hix, probes) in by_hash.iter() {
                self.hit("c09.hash-probed");
                let resolved = probes.iter().any(|h| {
                    matches!(&h.final_answer, Some(Answer::Resolve(k)) if rf::sha256_of(k) == h.spec.htlc_hash)
                });
                if resolved {
                    self.hit("c09.probe-resolved");
                    if probes.len() > 1 {
                        self.hit("c09.second-probe-needed");
                    }
                    continue;
                }
                // A probe counts as failed if it was answered with something else,
                // or if it was delivered, nothing for its hash is outstanding any
                // more and every deadline has certainly passed (it hangs).
                let x = super::content::pool().hashes[*hix];
                let quiet = !w.node.outstanding_rpcs().any(|(_, r)| r.hash == Some(x))
                    && !w.node.has_pending(&x)
                    && !w.node.cmd_running(&x);
                let mut failed = 0;
                let mut answers: Vec<String> = Vec::new();
                for h in probes.iter() {
                    match &h.final_answer {
                        Some(a) => {
                            failed += 1;
                            answers.push(super::engine::short_answer(a));
                        }
                        None => {
                            let hung = match h.state {
                                super::node::HtlcState::InFlight(ci) => {
                                    let c = &w.node.calls[ci];
                                    c.lifetime == w.node.lifetime
                                        && c.delivered_at_ms
                                            .map(|t| w.now_ms >= t.saturating_add(w.cfg.mpp_timeout.saturating_mul(1000)).saturating_add(61_000))
                                            .unwrap_or(false)
                                }
                                _ => false,
                            };
                            if hung && quiet && w.plugin_up {
                                failed += 1;
                                answers.push("never answered".into());
                            }
                        }
                    }
                }
                if failed >= 2 || (failed >= 1 && answers.iter().any(|a| a == "never answered")) {
                    bad.push((*hix, answers.join(", ")));
                }
            }
            for (hix, answers) in bad {
                let x = super::content::pool().hashes[hix];
                self.violate(
                    w,
                    "C09",
                    "hash-wedged",
                    format!(
                        "after the run quiesced, two consecutive fresh, fully funded sets for hash {} (cooperative recipient, no faults) were answered [{}]; durable record: {:?}",
                        rf::hex(&x),
                        answers,
                        w.node.store(&x)
                    ),
                );
            }
        }
        // ---- C06(3): nothing delivered stays unanswered ---------------------------------
        if w.quiescing && w.plugin_up {
            self.hit("c06.end-of-run-checked");
            let ukey = match &self.first_panic_key {
                Some(k) => format!("after-panic:{}", k),
                None => String::new(),
            };
            if w.any_frozen() {
                let fz = format!("{:#b}/{:#b}", w.frozen_hard, w.frozen_soft);
                let mut other_progress = false;
                let mut blocked: Vec<u64> = Vec::new();
                for (ci, c) in w.node.calls.iter().enumerate().filter(|(_, c)| c.lifetime == w.node.lifetime) {
                    let hx = w.node.htlc(c.hid).spec.hash_ix;
                    if w.stalled(hx) {
                        continue;
                    }
                    if c.delivered_step.map(|s| Some(s) >= w.frozen_at_step).unwrap_or(false) {
                        other_progress = true;
                    }
                    if c.delivered_step.is_some() && c.answer.is_none() && self.hung(w, ci) {
                        blocked.push(c.hid);
                    }
                }
                if other_progress {
                    self.hit("c14.frozen-run-completed");
                }
                for hid in blocked {
                    self.violate(
                        w,
                        "C14",
                        "other-hash-blocked",
                        format!("htlc {} of a different hash stayed unanswered while other hashes were frozen (bit masks of hash indices, RPCs withheld / outgoing payment stalled: {})", hid, fz),
                    );
                }
            }
            for (ci, c) in w.node.held_calls() {
                if w.stalled(w.node.htlc(c.hid).spec.hash_ix) {
                    continue;
                }
                if !self.hung(w, ci) {
                    // Still busy after hundreds of fault-free steps in which every
                    // RPC was answered at once: the call is not waiting for
                    // anything, it is going round in circles.
                    if w.steps_since_quiesce >= 300 {
                        self.violate(
                            w,
                            "C06",
                            "no-progress-after-faults-stopped",
                            format!("hook call for htlc {} is still unanswered after {} fault-free steps in which every RPC was answered immediately (RPCs keep being issued)", c.hid, w.steps_since_quiesce),
                        );
                    } else {
                        self.hit("c06.unanswered-but-schedule-not-drained");
                    }
                    continue;
                }
                // A configured MPP timeout of decades: a never-funded set is
                // rightly still held when the run ends.
                if w.cfg.mpp_timeout > 9_000_000 {
                    let waiting = self.entries.values().any(|e| {
                        e.members.contains(&ci)
                            && !e.funded
                            && e.doomed.is_none()
                            && e.first_answer.is_none()
                            && e.wait_start_ms.is_some()
                    });
                    if waiting {
                        self.hit("c06.held-under-huge-timeout");
                        continue;
                    }
                }
                self.violate_k(
                    w,
                    "C17",
                    "request-without-reply",
                    ukey.clone(),
                    format!("hook call {} (htlc {}) never received a reply carrying its id", c.call_id, c.hid),
                );
                self.violate_k(
                    w,
                    "C06",
                    "unanswered",
                    ukey.clone(),
                    format!(
                        "hook call for htlc {} ({}, class {}) still unanswered after every RPC was answered, every part resolved and time advanced past every deadline",
                        c.hid,
                        w.node.htlc(c.hid).spec.tag,
                        class_name(&c.class)
                    ),
                );
            }
            // ---- C02 / C05 end conditions --------------------------------------------------
            for x in self.touched.clone() {
                if w.node.has_complete(&x) {
                    self.hit("c02.end-with-complete-part");
                    let pre = super::content::pool()
                        .hash_index(&x)
                        .map(|i| super::content::pool().preimages[i]);
                    for c in w.node.calls.iter().filter(|c| c.lifetime == w.node.lifetime) {
                        if let Class::Trampoline(t) = &c.class {
                            if t.hash != x {
                                continue;
                            }
                            // Delivered after the completion, or held across it.
                            match (&c.answer, pre) {
                                (Some(Answer::Resolve(k)), Some(p)) if k[..] == p[..] => {}
                                (Some(Answer::Resolve(_)), _) => {}
                                (Some(Answer::Fail(_)), _) => {
                                    // C02 fail-while-live already reported at the time.
                                }
                                _ => {}
                            }
                        }
                    }
                }
            }
        }
    }
}

/// Panic message without location, shortened: the fingerprint of a panic.
pub fn panic_key(msg: &str) -> String {
    let m = msg.split(" @ ").next().unwrap_or(msg);
    let m: String = m.chars().take(90).collect();
    m
}

pub fn class_name(c: &Class) -> &'static str {
    match c {
        Class::Undecodable => "undecodable",
        Class::NotTrampoline(_) => "not-trampoline",
        Class::SelfHintRefused => "self-hint-refused",
        Class::NoForwardAmount => "no-forward-amount",
        Class::Trampoline(_) => "trampoline",
    }
}
