//! Schedulers: the seeded random scheduler (one PRNG stream decides every
//! operation, delay and fault) and the scripted scheduler used for replay and
//! minimisation (DESIGN.md 4.2, 4.3, 7).

use super::content::{base_cfg, RunCfg, NH};
use super::engine::{Scheduler, Sim};
use super::node::{CmdState, HtlcState, Method, PartStatus, PayOutcome, RpcFault, RpcState};
use super::ops::{NotifyMode, Op, RpcSel};
use super::reference::Class;
use super::rng::Rng;

// ---------------------------------------------------------------------------
// Profiles: which workload / fault mix a run uses (swarm configuration)
// ---------------------------------------------------------------------------

pub const PROFILES: [&str; 20] = [
    "plain",      // fault-free payments, 1-3 hashes
    "faults",     // crashes, write faults, reorder, delayed replies, bad pay outcomes
    "crashy",     // many crashes around the pay call
    "inputs",     // malformed / extreme / non-trampoline inputs
    "mpp",        // partial sets, stragglers, timeouts, rejecting HTLCs
    "restart",    // interrupted attempts, attempt ages around the timeout, clock jumps
    "isolation",  // two or three hashes, one frozen
    "slowpath",   // several hashes whose pay commands end while parts are in flight
    "stallmany",  // several payments stalled at once (usually across a restart) + one that must progress
    "wire",       // chunking, back-pressure, logging, many concurrent requests
    "reads",      // failed reads (thorough tier of C02)
    "heights",    // chain growth, notifications dropped/duplicated/stale
    "overlap",    // new set for a hash while the old lifecycle is finishing
    "config",     // option assignments (C19)
    "e2wait",     // E2: PayPaymentProvider::wait_payment
    "e2pay",      // E2: PayPaymentProvider::pay
    "e2watch",    // E2: BlockWatcher
    "e2wait-hostile",
    "e2pay-hostile",
    "flood",
];

pub fn profile_cfg(profile: &str, content: &mut Rng) -> RunCfg {
    let mut c = base_cfg(content, profile);
    // Swarm knobs for interleaving depth (not in the sweep base / config / E2 pay+wait profiles).
    if matches!(
        profile,
        "plain" | "mpp" | "isolation" | "overlap" | "heights" | "faults" | "inputs" | "wire" | "e2watch"
    ) {
        c.f_yield = *content.pick(&[0u32, 0, 0, 100, 400]);
        c.f_multi = *content.pick(&[0u32, 0, 150, 300]);
        if c.f_multi > 0 {
            c.f_timer_late = *content.pick(&[0u32, 300, 600]);
        }
    }
    c.pay_placeholder = content.chance(2, 3);
    c.big_messages = content.chance(1, 8);
    c.sync_warnings = content.chance(1, 6);
    c.id_style = *content.pick(&[0u8, 0, 0, 1, 2, 3]);
    if matches!(profile, "inputs" | "wire" | "faults") {
        c.f_notify_drop = 250;
    }
    match profile {
        "plain" => {
            c.f_rpc_reorder = 300;
            c.f_rpc_delay = 100;
            c.f_part_fail = 200;
            c.f_batch = 150;
            c.f_underfund = 100;
            c.f_reject_htlc = 60;
            c.f_nontrampoline = 80;
        }
        "faults" => {
            c.f_crash = 12;
            c.f_long_downtime = 150;
            c.f_rpc_write_fault = 50;
            c.f_rpc_reorder = 400;
            c.f_rpc_delay = 200;
            c.f_pay_bad_outcome = 400;
            c.f_part_fail = 350;
            c.f_response_lost = 300;
            c.f_batch = 150;
            c.f_underfund = 100;
            c.f_reject_htlc = 80;
            c.f_clock_jump = 5;
            c.f_stall = 60;
            c.max_lifetimes = 5;
        }
        "crashy" => {
            c.f_crash = 45;
            c.f_long_downtime = 120;
            c.f_rpc_reorder = 300;
            c.f_rpc_delay = 150;
            c.f_pay_bad_outcome = 300;
            c.f_part_fail = 300;
            c.f_response_lost = 400;
            c.f_rpc_write_fault = 20;
            c.f_stall = 80;
            c.max_lifetimes = 8;
            c.n_hashes = 1;
            c.max_sets = 3;
            c.mpp_timeout = *content.pick(&[60u64, 7, 600]);
        }
        "inputs" => {
            c.f_malformed = 200;
            c.f_undecodable = 80;
            c.f_nontrampoline = 250;
            c.f_extreme_numbers = 300;
            c.f_mismatch_hash = 120;
            c.f_reject_htlc = 150;
            c.f_underfund = 100;
            c.f_batch = 200;
            c.max_sets = 6;
            c.f_rpc_reorder = 200;
        }
        "mpp" => {
            c.f_underfund = 450;
            c.f_reject_htlc = 250;
            c.f_batch = 250;
            c.max_parts = *content.pick(&[2u32, 3, 4, 8]);
            c.max_sets = 4;
            c.n_hashes = 1 + content.below(2) as usize;
            c.mpp_timeout = *content.pick(&super::content::MPP_TIMEOUTS);
            c.f_rpc_reorder = 200;
            c.f_rpc_delay = 200;
            c.f_part_fail = 300;
        }
        "restart" => {
            c.f_crash = 30;
            c.crash_in_bookkeeping_window = true;
            c.f_long_downtime = 250;
            c.f_clock_jump = 40;
            c.f_underfund = 450;
            c.f_part_fail = 500;
            c.f_pay_bad_outcome = 300;
            c.f_response_lost = 300;
            c.max_lifetimes = 6;
            c.n_hashes = 1;
            c.max_sets = 4;
            c.mpp_timeout = *content.pick(&[1u64, 7, 60, 600]);
        }
        "isolation" => {
            c.n_hashes = 2 + content.below(2) as usize;
            c.max_sets = 5;
            c.freeze = true;
            c.freeze_soft = content.chance(1, 3);
            if content.chance(1, 3) {
                // several stalled payments at once, possibly across a restart
                c.freeze_n = 2 + content.below(4) as u8;
                c.n_hashes = c.freeze_n as usize + 1 + content.below(2) as usize;
                c.max_sets = c.n_hashes as u32 + 2;
                c.max_ops = 260;
                if content.chance(1, 2) {
                    c.f_crash = 12;
                    c.max_lifetimes = 2;
                }
            }
            c.f_part_fail = 250;
            c.f_underfund = 150;
            c.f_rpc_reorder = 300;
        }
        "slowpath" => {
            // Two or three hashes whose pay commands mostly end while parts are
            // still in flight (error / pending / failed with warning), most
            // parts failing: the wait-for-parts path is taken for several
            // hashes in one process.
            c.n_hashes = 2 + content.below(2) as usize;
            c.max_sets = 6;
            c.max_parts = 2;
            c.f_pay_bad_outcome = 700;
            c.f_part_fail = 650;
            c.f_rpc_reorder = 300;
            c.mpp_timeout = *content.pick(&[60u64, 600]);
            c.policy_base = *content.pick(&[0u32, 1, 1000]);
            c.policy_ppm = *content.pick(&[0u32, 5000]);
            c.policy_delta = *content.pick(&[40u16, 144]);
            c.cltv_delta = *content.pick(&[0u16, 18, 34]);
            c.start_height = *content.pick(&[100u32, 800_000]);
            c.no_self_hints = false;
        }
        "stallmany" => {
            // Many payments stalled at once (their parts never resolve),
            // usually across a restart, and one more payment that must not
            // be affected.
            c.freeze = true;
            c.freeze_soft = true;
            c.freeze_n = 2 + content.below(5) as u8;
            c.n_hashes = c.freeze_n as usize + 1;
            c.max_sets = c.n_hashes as u32 + 1;
            c.max_parts = 2;
            c.max_ops = 300;
            c.f_rpc_reorder = 200;
            c.mpp_timeout = *content.pick(&[60u64, 600]);
            // an everyday policy, so that most sets are accepted and paid
            c.policy_base = *content.pick(&[0u32, 1, 1000]);
            c.policy_ppm = *content.pick(&[0u32, 5000]);
            c.policy_delta = *content.pick(&[40u16, 144]);
            c.cltv_delta = *content.pick(&[0u16, 18, 34]);
            c.start_height = *content.pick(&[100u32, 800_000]);
            c.no_self_hints = false;
            if content.chance(3, 4) {
                c.crash_when_all_stalled = true;
                c.max_lifetimes = 2;
            }
        }
        "wire" => {
            c.chunking = 1 + content.below(2) as u8;
            c.pipeline_init = content.chance(1, 2);
            c.backpressure = content.chance(1, 2);
            c.log = content.chance(2, 3);
            c.f_batch = 500;
            c.max_sets = 6;
            c.max_parts = 8;
            c.f_nontrampoline = 300;
            c.f_malformed = 50;
            c.f_rpc_reorder = 500;
        }
        "reads" => {
            c.f_crash = 15;
            c.f_rpc_read_fault = 60;
            c.f_hostile_waitsendpay = 80;
            c.f_outage = 6;
            c.f_rpc_write_fault = 20;
            c.f_pay_bad_outcome = 300;
            c.f_part_fail = 300;
            c.f_response_lost = 200;
            c.max_lifetimes = 5;
        }
        "heights" => {
            c.f_notify_drop = 400;
            c.f_rpc_delay = 300;
            c.f_rpc_reorder = 300;
            c.f_extreme_numbers = 100;
        }
        "overlap" => {
            c.n_hashes = 1;
            c.max_sets = 5;
            // an everyday policy and payable invoices: this profile is about
            // consecutive payments of one hash overlapping, not about inputs
            c.policy_base = *content.pick(&[0u32, 1, 1000]);
            c.policy_ppm = *content.pick(&[0u32, 5000]);
            c.policy_delta = *content.pick(&[40u16, 144]);
            c.cltv_delta = *content.pick(&[0u16, 18, 34]);
            c.start_height = *content.pick(&[100u32, 800_000]);
            c.no_self_hints = false;
            c.f_rpc_delay = 500;
            c.f_rpc_reorder = 600;
            c.f_part_fail = 500;
            c.f_pay_bad_outcome = 200;
            c.f_rpc_write_fault = 30;
            c.f_crash = *content.pick(&[0u32, 0, 15, 30]);
            c.f_stall = 350;
            c.f_response_lost = 300;
            c.max_lifetimes = 4;
            c.mpp_timeout = *content.pick(&[60u64, 600]);
        }
        "config" => config_profile(&mut c, content),
        "e2wait" | "e2wait-hostile" => {
            c.mode = "wait_payment".into();
            c.max_sets = 0;
            // (now and then more parts than any small constant)
            let n = if content.chance(1, 12) { 9 + content.below(8) as usize } else { content.below(5) as usize };
            c.pre_parts = (0..n).map(|_| *content.pick(&[0u8, 0, 0, 1, 2])).collect();
            pre_part_groups(&mut c, content);
            many_pending_parts(&mut c, content, n);
            c.f_part_fail = if c.many_parts_fail { 900 } else { 450 };
            c.f_rpc_reorder = 800;
            c.f_rpc_delay = 300;
            c.log = false;
            if profile == "e2wait-hostile" {
                c.f_hostile_waitsendpay = 200;
                c.f_rpc_read_fault = 60;
            }
        }
        "e2pay" | "e2pay-hostile" => {
            if profile == "e2pay-hostile" {
                c.f_hostile_waitsendpay = 200;
                c.f_rpc_read_fault = 60;
            }
            c.mode = "pay".into();
            c.max_sets = 0;
            let n = if content.chance(1, 12) { 9 + content.below(8) as usize } else { content.below(4) as usize };
            c.pre_parts = (0..n).map(|_| *content.pick(&[0u8, 0, 1, 1, 2])).collect();
            pre_part_groups(&mut c, content);
            many_pending_parts(&mut c, content, n);
            c.f_pay_bad_outcome = 600;
            c.f_part_fail = if c.many_parts_fail { 900 } else { 450 };
            c.f_rpc_reorder = 800;
            c.f_rpc_delay = 300;
            c.log = false;
        }
        "flood" => {
            // Many HTLCs held at once (more than any small constant).
            c.n_hashes = 2 + content.below(2) as usize;
            c.max_sets = 12;
            c.max_parts = 8;
            c.f_underfund = 700;
            c.f_batch = 500;
            c.f_nontrampoline = 120;
            c.mpp_timeout = 600;
            c.max_ops = 160;
            // one run in three logs at trace level, half of those against a
            // node that drains the plugin's output slowly: hundreds of log
            // entries then queue up behind the writer
            c.log = content.chance(1, 3);
            c.backpressure = c.log && content.chance(1, 2);
            c.f_yield = 0;
        }
        "sweepbase" => {
            // Fault-free base scenarios for the systematic sweep (DESIGN.md 4.7).
            c.n_hashes = 1;
            c.max_sets = 1 + content.below(2) as u32;
            c.max_parts = *content.pick(&[1u32, 2, 3]);
            c.f_part_fail = 350;
            c.f_pay_bad_outcome = 250;
            c.f_underfund = 150;
            c.f_rpc_reorder = 100;
            c.mpp_timeout = *content.pick(&[7u64, 60]);
            c.max_ops = 60;
            c.log = false;
        }
        "e2watch" => {
            c.mode = "watcher".into();
            c.max_sets = 0;
            c.f_getinfo_fail = 120;
            c.f_rpc_delay = 350;
            c.f_notify_drop = 400;
            c.log = false;
        }
        _ => {}
    }
    c
}

/// C19: option assignments, valid and invalid.
/// One run in four: the pre-existing parts belong to two or three pay
/// commands (groups), e.g. a part of an older group is still unresolved while
/// the newest group has already failed.
fn pre_part_groups(c: &mut RunCfg, content: &mut super::rng::Rng) {
    if c.pre_parts.len() >= 2 && content.chance(1, 4) {
        let ng = 2 + content.below(2) as u8;
        for p in c.pre_parts.iter_mut() {
            *p |= (content.below(ng as u64) as u8) << 4;
        }
    }
}

/// Runs with nine or more parts: mostly all of them pending and most of them
/// failing one after the other (a wait that covers only the first few parts
/// then ends while the rest is still in flight).
fn many_pending_parts(c: &mut RunCfg, content: &mut super::rng::Rng, n: usize) {
    if n >= 9 && content.chance(2, 3) {
        for p in c.pre_parts.iter_mut() {
            *p &= 0xf0;
        }
    }
    if n >= 9 && content.chance(1, 2) {
        c.many_parts_fail = true;
    }
}

fn config_profile(c: &mut RunCfg, content: &mut Rng) {
    let mut pick_i64 = |cands: &[i64], r: &mut Rng| -> i64 { *r.pick(cands) };
    let u16s: [i64; 12] = [0, 1, 2, 34, 35, 143, 144, 1008, 65534, 65535, 65536, -1];
    let u32s: [i64; 9] = [0, 1, 1000, 5000, 4294967295, 4294967296, -1, i64::MAX, 999_999];
    let secs: [i64; 11] = [0, 1, 7, 60, 600, -1, 65535, 65536, i64::MIN, i64::MAX, 4_000_000_000];
    let mut o = std::collections::BTreeMap::new();
    // Mostly valid assignments, some invalid ones.
    let invalid = content.chance(1, 3);
    let (cd, pd) = if invalid && content.chance(1, 2) {
        let a = pick_i64(&u16s, content);
        let b = pick_i64(&u16s, content);
        (a, b)
    } else {
        let pd = *content.pick(&[35i64, 144, 1008, 2016, 65535, 2]);
        let cd = *content.pick(&[0i64, 1, 34, pd - 1, pd / 2]);
        (cd, pd)
    };
    o.insert("trampoline-cltv-delta".to_string(), cd);
    o.insert("trampoline-policy-cltv-delta".to_string(), pd);
    let base = if invalid && content.chance(1, 3) { pick_i64(&u32s, content) } else { *content.pick(&[0i64, 1, 1000, 4294967295]) };
    let ppm = if invalid && content.chance(1, 3) { pick_i64(&u32s, content) } else { *content.pick(&[0i64, 1, 5000, 4294967295, 1_000_000]) };
    let mpp = if invalid && content.chance(1, 3) { pick_i64(&secs, content) } else { *content.pick(&[1i64, 7, 60, 600, 600, i64::MAX, 4_000_000_000]) };
    let pto = if invalid && content.chance(1, 3) { pick_i64(&secs, content) } else { *content.pick(&[0i64, 1, 60, 65535, 65536, 1_000_000, i64::MAX]) };
    o.insert("trampoline-policy-fee-base".to_string(), base);
    o.insert("trampoline-policy-fee-per-satoshi".to_string(), ppm);
    o.insert("trampoline-mpp-timeout".to_string(), mpp);
    o.insert("trampoline-payment-timeout".to_string(), pto);
    // Typed mirror (used by the oracles when the configuration is valid).
    c.cltv_delta = cd.clamp(0, 65535) as u16;
    c.policy_delta = pd.clamp(0, 65535) as u16;
    c.policy_base = base.clamp(0, u32::MAX as i64) as u32;
    c.policy_ppm = ppm.clamp(0, u32::MAX as i64) as u32;
    c.mpp_timeout = mpp.max(0) as u64;
    c.payment_timeout = pto.max(0) as u64;
    c.raw_opts = Some(o);
    if content.chance(1, 8) {
        // A value lightningd could legally forward but that is no i64: the
        // plugin must refuse to start (it may do so by aborting).
        let name = *content.pick(&[
            "trampoline-cltv-delta",
            "trampoline-policy-cltv-delta",
            "trampoline-policy-fee-base",
            "trampoline-policy-fee-per-satoshi",
            "trampoline-mpp-timeout",
            "trampoline-payment-timeout",
        ]);
        let val = *content.pick(&[
            "\"1000msat\"",
            "\"90s\"",
            "\" 60\"",
            "\"60\"",
            "90.5",
            "9223372036854775808",
            "18446744073709551615",
            "\"\"",
        ]);
        let mut m = std::collections::BTreeMap::new();
        m.insert(name.to_string(), val.to_string());
        c.raw_json_opts = Some(m);
    }
    c.n_hashes = 1;
    c.max_sets = 3;
    c.max_parts = 1;
    c.f_underfund = 300;
    c.f_reject_htlc = 200;
    c.start_height = *content.pick(&[100u32, 0, 800_000]);
    c.log = false;
}

/// Reference validator for C19: must the plugin refuse to start?
pub fn config_must_refuse(c: &RunCfg) -> Option<bool> {
    let o = c.raw_opts.as_ref()?;
    if c.raw_json_opts.as_ref().map(|m| !m.is_empty()).unwrap_or(false) {
        return Some(true);
    }
    let g = |k: &str| o.get(k).copied().unwrap_or(0);
    let cd = g("trampoline-cltv-delta");
    let pd = g("trampoline-policy-cltv-delta");
    let in_u16 = |v: i64| (0..=65535).contains(&v);
    let in_u32 = |v: i64| (0..=u32::MAX as i64).contains(&v);
    let refuse = !in_u16(cd)
        || !in_u16(pd)
        || pd <= cd
        || !in_u32(g("trampoline-policy-fee-base"))
        || !in_u32(g("trampoline-policy-fee-per-satoshi"))
        || g("trampoline-mpp-timeout") < 0
        || g("trampoline-payment-timeout") < 0;
    Some(refuse)
}

// ---------------------------------------------------------------------------
// Random scheduler
// ---------------------------------------------------------------------------

#[derive(Clone, Copy, Debug, PartialEq, Eq)]
enum Phase {
    Main,
    Quiesce,
    Probe,
    Done,
}

pub struct RandomSched {
    pub rng: Rng,
    phase: Phase,
    sets_offered: u32,
    main_steps: u32,
    quiesce_steps: u32,
    time_pushes: u32,
    crashes: u32,
    last_kind: &'static str,
    last_apply_method: Option<Method>,
    /// probing: hashes still to probe, attempts made for the current one
    probe_queue: Vec<usize>,
    probe_current: Option<(usize, u32, Option<u64>)>,
    pub probe: bool,
    freeze_decided: u32,
    marked: bool,
    /// RPC ids held back until the given main step (slow node).
    stalled: Vec<(u64, u32)>,
    stall_seen: u64,
}

impl RandomSched {
    pub fn new(seed: u64, probe: bool) -> Self {
        RandomSched {
            rng: Rng::new(seed),
            phase: Phase::Main,
            sets_offered: 0,
            main_steps: 0,
            quiesce_steps: 0,
            time_pushes: 0,
            crashes: 0,
            last_kind: "",
            last_apply_method: None,
            probe_queue: Vec::new(),
            probe_current: None,
            probe,
            freeze_decided: 0,
            marked: false,
            stalled: Vec::new(),
            stall_seen: 0,
        }
    }

    /// A scheduler that starts directly in the fault-free end phase (used as
    /// the tail of sweep runs).
    pub fn new_tail(seed: u64, probe: bool) -> Self {
        let mut s = Self::new(seed, probe);
        s.phase = Phase::Quiesce;
        s
    }

    fn frozen(&self, sim: &Sim, hash_ix: u8) -> bool {
        sim.w.hard_frozen(hash_ix as usize)
    }

    fn stalled_hash(&self, sim: &Sim, hash_ix: u8) -> bool {
        sim.w.stalled(hash_ix as usize)
    }

    fn pick_fault(&mut self, sim: &Sim, method: Method, kind_is_state_write: bool) -> RpcFault {
        let c = &sim.w.cfg;
        let _ = kind_is_state_write;
        match method {
            Method::Datastore => {
                if self.rng.permille(c.f_rpc_write_fault) {
                    return if self.rng.chance(1, 2) {
                        RpcFault::Transport
                    } else {
                        RpcFault::AppliedButError
                    };
                }
            }
            Method::Listdatastore | Method::Listsendpays => {
                if self.rng.permille(c.f_rpc_read_fault) {
                    return match self.rng.below(3) {
                        0 => RpcFault::Transport,
                        1 => RpcFault::Code(0),
                        _ => RpcFault::Code(-1),
                    };
                }
            }
            Method::Waitsendpay => {
                if self.rng.permille(c.f_hostile_waitsendpay) {
                    return match self.rng.below(5) {
                        0 => RpcFault::Code(-1),
                        1 => RpcFault::Code(200),
                        2 => RpcFault::Code(12345),
                        3 => RpcFault::Code(0),
                        _ => RpcFault::Transport,
                    };
                }
            }
            Method::Pay => {
                if self.rng.permille(c.f_pay_bad_outcome / 4) {
                    // the command never started: socket error, or rejected up
                    // front (expired invoice 207, no route 205, ...)
                    return match self.rng.below(4) {
                        0 => RpcFault::Transport,
                        1 => RpcFault::Code(207),
                        2 => RpcFault::Code(205),
                        _ => RpcFault::Code(201),
                    };
                }
            }
            Method::Getinfo => {
                if self.rng.permille(c.f_getinfo_fail) {
                    return RpcFault::Transport;
                }
            }
            Method::Other => {}
        }
        RpcFault::None
    }

    fn main_op(&mut self, sim: &Sim) -> Option<Op> {
        let c = &sim.w.cfg;
        let node = &sim.w.node;
        self.main_steps += 1;
        if self.main_steps > c.max_ops {
            return None;
        }
        // C14: decide once which hash gets frozen, after a few steps.
        // (the freeze itself is applied by filtering candidates below)

        // Crash once every hash to be stalled is stalled and one more payment
        // is in flight (stallmany profile).
        if c.crash_when_all_stalled && sim.w.init_acked && node.lifetime < c.max_lifetimes && node.lifetime == 0 {
            let n = (c.freeze_n.max(1) as usize).min(c.n_hashes.saturating_sub(1)).min(NH - 1);
            let n_stalled = (0..n).filter(|hx| sim.w.stalled(*hx)).count();
            let others_paying = (n..c.n_hashes.min(NH)).any(|hx| {
                let h = super::content::pool().hashes[hx];
                node.has_pending(&h)
            });
            let go = (n_stalled == n && others_paying) || (n_stalled >= 2 && self.main_steps > c.max_ops / 3);
            if go && self.rng.chance(1, 3) {
                self.crashes += 1;
                self.last_apply_method = None;
                return Some(Op::Crash {
                    lose_answers: self.rng.chance(1, 4),
                    down_s: 1,
                });
            }
        }
        // Crash?
        if sim.w.init_acked && node.lifetime < c.max_lifetimes && c.f_crash > 0 {
            let mut p = c.f_crash;
            let hot = matches!(
                self.last_apply_method,
                Some(Method::Datastore) | Some(Method::Pay)
            ) || self.last_kind == "cmd-parts"
                || self.last_kind == "part"
                || self.last_kind == "cmd-finish";
            if hot {
                p *= 4;
            }
            // The window between answering the HTLCs and recording the
            // outcome: a bookkeeping write has been issued but not applied.
            let bookkeeping_pending = node.outstanding_rpcs().any(|(_, r)| {
                matches!(r.state, RpcState::Issued)
                    && matches!(
                        super::oracle::rpc_kind(r.method, &r.params),
                        super::oracle::RpcKind::MarkFailedAttempt
                            | super::oracle::RpcKind::MarkFailedFree
                            | super::oracle::RpcKind::MarkSucceededState
                            | super::oracle::RpcKind::MarkSucceededAttempt
                    )
            });
            if bookkeeping_pending && c.crash_in_bookkeeping_window {
                p = p.max(c.f_crash * 5);
            }
            if self.rng.permille(p.min(500)) {
                self.crashes += 1;
                let lose = self.rng.permille(c.f_response_lost);
                self.last_apply_method = None;
                let down_s = if self.rng.permille(c.f_long_downtime) {
                    *self.rng.pick(&[3600u64, 65_535, 65_537, 86_399, 86_401, 200_000, 1_000_000])
                } else {
                    1
                };
                return Some(Op::Crash {
                    lose_answers: lose,
                    down_s,
                });
            }
        }
        // The wall clock of a machine that has just rebooted is often behind
        // (no RTC, time not yet synchronised): step it back right after a
        // restart, before anything is replayed.
        if c.f_clock_jump > 0 && self.last_kind == "crash" && self.rng.chance(1, 3) {
            let secs = -*self.rng.pick(&[
                1i64,
                (c.mpp_timeout as i64) / 2 + 1,
                c.mpp_timeout as i64,
                c.mpp_timeout as i64 * 3,
                3600,
            ]);
            return Some(Op::ClockJump { secs });
        }
        if c.f_clock_jump > 0 && self.rng.permille(c.f_clock_jump) {
            let secs = *self.rng.pick(&[
                -1i64,
                1,
                -(c.mpp_timeout as i64),
                c.mpp_timeout as i64,
                -3600,
                3600,
                -(c.mpp_timeout as i64) / 2,
                (c.mpp_timeout as i64) / 2 + 1,
                65_537,
                86_401,
                -86_401,
                1_000_000,
            ]);
            return Some(Op::ClockJump { secs });
        }
        if c.f_outage > 0 {
            if node.outage {
                if self.rng.chance(1, if c.f_outage >= 6 { 14 } else { 4 }) {
                    return Some(Op::Outage { on: false });
                }
            } else if self.rng.permille(c.f_outage) {
                return Some(Op::Outage { on: true });
            }
        }

        // C14: freeze hashes 0..freeze_n once they have something in flight
        // (hard: everything for the hash is withheld; soft: only its outgoing
        // payment stalls, once it has one).
        if c.freeze && sim.w.init_acked {
            let n = (c.freeze_n.max(1) as usize).min(c.n_hashes.saturating_sub(1)).min(NH - 1);
            for hx in 0..n {
                if self.freeze_decided & (1 << hx) != 0 {
                    continue;
                }
                let h = super::content::pool().hashes[hx];
                let paying = node.cmd_running(&h) || node.has_pending(&h);
                let busy = paying
                    || node.outstanding_rpcs().any(|(_, r)| r.hash == Some(h))
                    || super::oracle::Oracles::held_for(&sim.w, &h).next().is_some();
                let go = if c.freeze_soft {
                    // (with a part in flight, so that the stall survives a restart)
                    node.has_pending(&h) && self.rng.chance(1, 2)
                } else {
                    busy && self.rng.chance(1, 4)
                };
                if go {
                    self.freeze_decided |= 1 << hx;
                    return Some(Op::Freeze {
                        hash: hx as u8,
                        soft: c.freeze_soft,
                    });
                }
            }
        }

        // stallmany: the payments that are to stay free make no progress on
        // the node until the others are stalled and the crash has happened
        // (or half the run is over), so that all of them are in flight at once.
        let hold_free = c.crash_when_all_stalled && node.lifetime == 0 && self.main_steps < c.max_ops / 2;
        let mut cands: Vec<(Op, u32)> = Vec::new();
        // Offer
        if self.sets_offered < c.max_sets {
            let idle = node.outstanding_rpcs().count() == 0;
            cands.push((
                Op::Offer {
                    set: self.sets_offered,
                    hash: if c.freeze && c.freeze_n > 1 && (self.sets_offered as usize) < c.n_hashes {
                        Some(self.sets_offered as u8)
                    } else {
                        None
                    },
                },
                if idle || (c.freeze && c.freeze_n > 1) { 60 } else { 12 },
            ));
        }
        // Deliver
        if sim.w.init_acked {
            let offered: Vec<u64> = node
                .htlcs
                .iter()
                .filter(|h| h.state == HtlcState::Offered)
                .map(|h| h.hid)
                .collect();
            if !offered.is_empty() {
                let batch = offered.len() > 1 && self.rng.permille(c.f_batch);
                let hids: Vec<u64> = if batch {
                    let k = 2 + self.rng.below((offered.len() - 1) as u64) as usize;
                    let mut o = offered.clone();
                    self.rng.shuffle(&mut o);
                    o.truncate(k);
                    o
                } else {
                    vec![*self.rng.pick(&offered)]
                };
                let release = if c.chunking > 0 && self.rng.chance(1, 2) {
                    self.rng.below(400) as u32
                } else {
                    u32::MAX
                };
                cands.push((Op::Deliver { hids, release }, 70));
            }
        }
        if super::seam::stdin_unreleased() > 0 {
            let n = match self.rng.below(4) {
                0 => 1,
                1 => self.rng.below(50) as u32 + 1,
                2 => self.rng.below(600) as u32 + 1,
                _ => u32::MAX,
            };
            cands.push((Op::Feed { n }, 90));
        }
        // RPCs
        if node.lifetime as u64 != self.stall_seen >> 32 {
            self.stalled.clear();
            self.stall_seen = (node.lifetime as u64) << 32;
        }
        if c.f_stall > 0 {
            for r in node.rpcs.iter() {
                if r.id > (self.stall_seen & 0xffff_ffff) {
                    self.stall_seen = (self.stall_seen & !0xffff_ffff) | r.id;
                    let k = super::oracle::rpc_kind(r.method, &r.params);
                    let bookkeeping = matches!(
                        k,
                        super::oracle::RpcKind::MarkFailedAttempt
                            | super::oracle::RpcKind::MarkFailedFree
                            | super::oracle::RpcKind::MarkSucceededState
                            | super::oracle::RpcKind::MarkSucceededAttempt
                    );
                    if bookkeeping && self.rng.permille(c.f_stall) {
                        let until = self.main_steps + 4 + self.rng.below(45) as u32;
                        self.stalled.push((r.id, until));
                    }
                }
            }
        }
        let mut oldest_seen = false;
        for (i, r) in node.rpcs.iter().enumerate() {
            let hix = Sim::hash_ix_of(&r.hash);
            if self.frozen(sim, hix) {
                continue;
            }
            if self
                .stalled
                .iter()
                .any(|(id, until)| *id == r.id && self.main_steps < *until)
            {
                continue;
            }
            match &r.state {
                RpcState::Issued => {
                    let w = if !oldest_seen {
                        100
                    } else {
                        (c.f_rpc_reorder / 5).max(1)
                    };
                    oldest_seen = true;
                    let sel = sim.sel_of(i);
                    let fault = self.pick_fault(sim, r.method, false);
                    let deliver = !self.rng.permille(c.f_rpc_delay);
                    cands.push((
                        Op::Apply {
                            rpc: sel,
                            fault,
                            deliver,
                        },
                        w,
                    ));
                }
                RpcState::ReplyReady(_) => {
                    cands.push((Op::Reply { rpc: sim.sel_of(i) }, 50));
                }
                _ => {}
            }
        }
        // Pay commands
        for (ci, cmd) in node.pay_cmds.iter().enumerate() {
            if cmd.state != CmdState::Running {
                continue;
            }
            let hix = Sim::hash_ix_of(&Some(cmd.hash));
            if self.stalled_hash(sim, hix) {
                continue;
            }
            if hold_free && cmd.parts_created > 0 && (hix as usize) >= c.freeze_n.max(1) as usize {
                continue;
            }
            let my_pending = node
                .parts
                .iter()
                .filter(|p| p.cmd == ci && p.status == PartStatus::Pending)
                .count();
            if cmd.parts_created < 6 {
                let n = 1 + self.rng.below(3) as u8;
                let fee_share = *self.rng.pick(&[0u16, 100, 500, 1000]);
                cands.push((
                    Op::CmdParts {
                        cmd: ci as u32,
                        n,
                        fee_share,
                    },
                    if cmd.parts_created == 0 { 80 } else { 15 },
                ));
            }
            // Finish
            let mut outcomes: Vec<PayOutcome> = Vec::new();
            if node.pay_outcome_allowed(ci, PayOutcome::Complete) {
                outcomes.push(PayOutcome::Complete);
                outcomes.push(PayOutcome::Complete);
            }
            if node.pay_outcome_allowed(ci, PayOutcome::FailedFinal) && cmd.parts_created > 0 {
                outcomes.push(PayOutcome::FailedFinal);
            }
            if cmd.parts_created == 0 {
                // no route at all
                outcomes.push(PayOutcome::Error(205));
            }
            if self.rng.permille(c.f_pay_bad_outcome) {
                outcomes.clear();
                outcomes.extend_from_slice(&[
                    PayOutcome::Pending,
                    PayOutcome::FailedPartial,
                    PayOutcome::Error(210),
                    PayOutcome::Error(203),
                    PayOutcome::Error(206),
                ]);
            }
            if !outcomes.is_empty() {
                let o = *self.rng.pick(&outcomes);
                let w = if my_pending == 0 && cmd.parts_created > 0 {
                    80
                } else if matches!(o, PayOutcome::Complete) {
                    60
                } else {
                    8
                };
                cands.push((
                    Op::CmdFinish {
                        cmd: ci as u32,
                        outcome: o,
                    },
                    w,
                ));
            }
        }
        // Parts
        for (pi, p) in node.parts.iter().enumerate() {
            if p.status != PartStatus::Pending {
                continue;
            }
            let hix = Sim::hash_ix_of(&Some(p.hash));
            if self.stalled_hash(sim, hix) {
                continue;
            }
            if hold_free && (hix as usize) >= c.freeze_n.max(1) as usize {
                continue;
            }
            let complete = !self.rng.permille(c.f_part_fail);
            let code = *self.rng.pick(&[202i32, 203, 204, 208, 209]);
            // Bias: resolve right between the two listsendpays of a wait.
            let between = node
                .rpcs
                .iter()
                .filter(|r| r.method == Method::Listsendpays && r.hash == Some(p.hash))
                .any(|r| matches!(r.state, RpcState::Issued))
                && node
                    .rpcs
                    .iter()
                    .filter(|r| r.method == Method::Listsendpays && r.hash == Some(p.hash))
                    .any(|r| !matches!(r.state, RpcState::Issued));
            cands.push((
                Op::Part {
                    part: pi as u32,
                    complete,
                    code,
                },
                if between { 120 } else { 35 },
            ));
        }
        // Nothing in flight and nothing left to offer: the main phase is over.
        if cands.is_empty()
            && self.sets_offered >= c.max_sets
            && node.held_calls().count() == 0
            && !node.parts.iter().any(|p| p.status == PartStatus::Pending)
            && self.rng.chance(2, 3)
        {
            return None;
        }
        // Time
        {
            let mut deltas: Vec<u64> = vec![1, 1 + self.rng.below(100), 1000];
            let now = sim.w.now_ms;
            for e in sim.or.entries.values() {
                if let (Some(ws), Some(left)) = (e.wait_start_ms, e.time_left_ms) {
                    let due = ws.saturating_add(left);
                    // Deadlines decades away (astronomic configured timeouts) are
                    // never approached: tokio itself truncates sleeps at ~30 years.
                    if due > now && due - now <= 10_000_000_000 {
                        let d = due - now;
                        deltas.push(d);
                        deltas.push(d.saturating_sub(3).max(1));
                        deltas.push(d + 3);
                        deltas.push(d / 2 + 1);
                    }
                }
            }
            deltas.push(c.mpp_timeout.min(10_000_000) * 1000 + 1);
            if self.rng.chance(1, 6) {
                deltas.push(60_000);
                deltas.push(59_998);
            }
            let ms = *self.rng.pick(&deltas);
            let busy = !cands.is_empty();
            cands.push((Op::Time { ms: ms.max(1) }, if busy { 14 } else { 100 }));
        }
        // Coincidence: time runs up to exactly the MPP deadline of a waiting
        // set and another HTLC of that hash is handed over in that very
        // instant (with late-observed timers the plugin may see either first).
        if c.f_multi > 0 && sim.w.init_acked {
            let now = sim.w.now_ms;
            for (x, e) in sim.or.entries.iter() {
                if e.first_answer.is_some() || e.attempt_started {
                    continue;
                }
                if let (Some(ws), Some(left)) = (e.wait_start_ms, e.time_left_ms) {
                    let due = ws.saturating_add(left);
                    if due <= now || due - now > 10_000_000_000 {
                        continue;
                    }
                    let hix = super::content::pool().hash_index(x).unwrap_or(255);
                    let waiting: Vec<u64> = node
                        .htlcs
                        .iter()
                        .filter(|h| h.state == HtlcState::Offered && h.spec.hash_ix == hix)
                        .map(|h| h.hid)
                        .collect();
                    if let Some(hid) = waiting.first() {
                        let hid = if waiting.len() > 1 { *self.rng.pick(&waiting) } else { *hid };
                        cands.push((
                            Op::Multi {
                                ops: vec![
                                    Op::Time { ms: due - now },
                                    Op::Deliver {
                                        hids: vec![hid],
                                        release: u32::MAX,
                                    },
                                ],
                            },
                            30,
                        ));
                    }
                }
            }
        }
        // Blocks
        {
            let k = *self.rng.pick(&[1u32, 1, 1, 2, 6, 144]);
            let notify = if self.rng.permille(c.f_notify_drop) {
                match self.rng.below(5) {
                    0 => NotifyMode::Drop,
                    1 => NotifyMode::Dup,
                    2 => NotifyMode::Malformed(self.rng.below(5) as u8),
                    3 => NotifyMode::Burst(node.height.saturating_sub(self.rng.below(5) as u32)),
                    _ => NotifyMode::Stale(node.height.saturating_sub(self.rng.below(5) as u32)),
                }
            } else {
                NotifyMode::Deliver
            };
            cands.push((Op::Block { k, notify }, if c.profile == "heights" { 40 } else { 5 }));
        }
        if c.backpressure {
            let n = match self.rng.below(4) {
                0 => 0,
                1 => 1 + self.rng.below(40) as u32,
                2 => 200 + self.rng.below(2000) as u32,
                _ => u32::MAX,
            };
            cands.push((Op::StdoutGrant { n }, 25));
        }
        if cands.is_empty() {
            return None;
        }
        // Freeze decision (C14): after some progress, freeze hash 0 for good.
        let weights: Vec<u32> = cands.iter().map(|c| c.1).collect();
        let i = self.rng.pick_weighted(&weights);
        let mut op = cands.swap_remove(i).0;
        if let Op::Offer { .. } = op {
            self.sets_offered += 1;
        }
        // Several things become runnable in the same step.
        let batchable = |o: &Op| {
            matches!(
                o,
                Op::Apply { .. }
                    | Op::Reply { .. }
                    | Op::Deliver { .. }
                    | Op::Block {
                        notify: NotifyMode::Deliver,
                        ..
                    }
            )
        };
        // Time running up to a deadline and something else arriving in that
        // very instant.
        if c.f_multi > 0 && matches!(op, Op::Time { .. }) && self.rng.permille(c.f_multi) {
            self.rng.shuffle(&mut cands);
            let mut ops = vec![op.clone()];
            for (o, _) in cands.iter() {
                if ops.len() >= 3 {
                    break;
                }
                let dup = ops.iter().any(|p| std::mem::discriminant(p) == std::mem::discriminant(o));
                if batchable(o) && !dup {
                    ops.push(o.clone());
                }
            }
            if ops.len() > 1 {
                op = Op::Multi { ops };
            }
        } else if c.f_multi > 0 && batchable(&op) && self.rng.permille(c.f_multi) {
            let key = |o: &Op| -> (u8, u8, u8) {
                match o {
                    Op::Apply { rpc, .. } => (1, rpc.method as u8, rpc.hash),
                    Op::Reply { rpc } => (2, rpc.method as u8, rpc.hash),
                    Op::Block { .. } => (4, 0, 0),
                    _ => (3, 0, 0),
                }
            };
            let mut ops = vec![op.clone()];
            let mut used = vec![key(&op)];
            self.rng.shuffle(&mut cands);
            for (o, _) in cands.iter() {
                if ops.len() >= 3 {
                    break;
                }
                if !batchable(o) {
                    continue;
                }
                let k = key(o);
                if used.contains(&k) {
                    continue;
                }
                if let (Op::Deliver { .. }, true) = (o, used.iter().any(|u| u.0 == 3)) {
                    continue;
                }
                used.push(k);
                ops.push(o.clone());
            }
            if ops.len() > 1 {
                op = Op::Multi { ops };
            }
        }
        self.last_apply_method = match &op {
            Op::Apply { rpc, fault, .. } if *fault != RpcFault::Transport => Some(rpc.method),
            _ => None,
        };
        Some(op)
    }

    fn quiesce_op(&mut self, sim: &Sim) -> Option<Op> {
        if !self.marked {
            self.marked = true;
            return Some(Op::QuiesceMark);
        }
        self.quiesce_steps += 1;
        if self.quiesce_steps > 400 {
            return None;
        }
        let node = &sim.w.node;
        let frozen = |h: u8| sim.w.hard_frozen(h as usize);
        let stalled = |h: u8| sim.w.stalled(h as usize);
        if !sim.w.plugin_up {
            return None;
        }
        // 1. deliver everything the node still holds
        if sim.w.init_acked {
            let offered: Vec<u64> = node
                .htlcs
                .iter()
                .filter(|h| h.state == HtlcState::Offered && !frozen(h.spec.hash_ix as u8))
                .map(|h| h.hid)
                .collect();
            if !offered.is_empty() {
                return Some(Op::Deliver {
                    hids: offered,
                    release: u32::MAX,
                });
            }
        }
        // 2. parked replies, oldest first; then outstanding RPCs, FIFO, no faults
        for (i, r) in node.rpcs.iter().enumerate() {
            if frozen(Sim::hash_ix_of(&r.hash)) {
                continue;
            }
            if let RpcState::ReplyReady(_) = r.state {
                return Some(Op::Reply { rpc: sim.sel_of(i) });
            }
        }
        for (i, r) in node.rpcs.iter().enumerate() {
            if frozen(Sim::hash_ix_of(&r.hash)) {
                continue;
            }
            if let RpcState::Issued = r.state {
                return Some(Op::Apply {
                    rpc: sim.sel_of(i),
                    fault: RpcFault::None,
                    deliver: true,
                });
            }
        }
        // 3. pay commands and parts
        for (ci, cmd) in node.pay_cmds.iter().enumerate() {
            if cmd.state != CmdState::Running || stalled(Sim::hash_ix_of(&Some(cmd.hash))) {
                continue;
            }
            if cmd.parts_created == 0 {
                return Some(Op::CmdParts {
                    cmd: ci as u32,
                    n: 1 + self.rng.below(2) as u8,
                    fee_share: 500,
                });
            }
        }
        for (pi, p) in node.parts.iter().enumerate() {
            if p.status == PartStatus::Pending && !stalled(Sim::hash_ix_of(&Some(p.hash))) {
                let complete = self.phase == Phase::Probe || self.rng.permille(sim.w.cfg.recipient_coop);
                return Some(Op::Part {
                    part: pi as u32,
                    complete,
                    code: 204,
                });
            }
        }
        for (ci, cmd) in node.pay_cmds.iter().enumerate() {
            if cmd.state != CmdState::Running || stalled(Sim::hash_ix_of(&Some(cmd.hash))) {
                continue;
            }
            let outcome = if node.has_complete(&cmd.hash) {
                PayOutcome::Complete
            } else {
                PayOutcome::FailedFinal
            };
            return Some(Op::CmdFinish {
                cmd: ci as u32,
                outcome,
            });
        }
        // 4. anything still held and not frozen? push time past every deadline.
        let held_unfrozen = node
            .held_calls()
            .any(|(_, c)| !stalled(node.htlc(c.hid).spec.hash_ix as u8));
        if held_unfrozen && self.time_pushes < 3 {
            self.time_pushes += 1;
            return Some(Op::Time {
                ms: sim.w.cfg.mpp_timeout.min(10_000_000) * 1000 + 61_000,
            });
        }
        None
    }

    fn probe_op(&mut self, sim: &Sim) -> Option<Op> {
        // The probe itself is driven like a tiny fault-free run: offer, then quiesce.
        loop {
            match self.probe_current {
                None => {
                    let hix = self.probe_queue.pop()?;
                    self.probe_current = Some((hix, 0, None));
                }
                Some((hix, attempts, hid)) => {
                    match hid {
                        None => {
                            if attempts >= 2 {
                                self.probe_current = None;
                                continue;
                            }
                            let hid = sim.w.node.next_hid;
                            self.probe_current = Some((hix, attempts + 1, Some(hid)));
                            self.quiesce_steps = 0;
                            self.time_pushes = 0;
                            return Some(Op::OfferProbe {
                                hash: hix as u8,
                                overpay: 0,
                                expiry_off: None,
                            });
                        }
                        Some(hid) => {
                            // Probe HTLC answered?
                            let answered = sim
                                .w
                                .node
                                .htlcs
                                .get(hid as usize)
                                .map(|h| h.final_answer.clone())
                                .unwrap_or(None);
                            match answered {
                                Some(super::node::Answer::Resolve(_)) => {
                                    self.probe_current = None;
                                    continue;
                                }
                                Some(_) => {
                                    // failed once: allowed (stale record); try again
                                    self.probe_current = Some((hix, attempts, None));
                                    continue;
                                }
                                None => match self.quiesce_op(sim) {
                                    Some(op) => return Some(op),
                                    None => {
                                        // nothing more to do and still unanswered
                                        self.probe_current = Some((hix, 2, None));
                                        continue;
                                    }
                                },
                            }
                        }
                    }
                }
            }
        }
    }
}

impl Scheduler for RandomSched {
    fn next(&mut self, sim: &Sim) -> Option<Op> {
        if sim.w.cfg.mode != "process" && !sim.w.plugin_up {
            return None;
        }
        if sim.w.cfg.mode == "process" && sim.w.main_result.is_some() && !sim.w.init_acked {
            // The plugin refused to start (C19): nothing to schedule.
            return None;
        }
        loop {
            match self.phase {
                Phase::Main => match self.main_op(sim) {
                    Some(op) => {
                        self.last_kind = op.kind();
                        return Some(op);
                    }
                    None => self.phase = Phase::Quiesce,
                },
                Phase::Quiesce => match self.quiesce_op(sim) {
                    Some(op) => return Some(op),
                    None => {
                        if self.probe && sim.w.plugin_up && sim.w.cfg.mpp_timeout != 0 {
                            let pool = super::content::pool();
                            self.probe_queue = sim
                                .or
                                .touched
                                .iter()
                                .filter_map(|h| pool.hash_index(h))
                                .filter(|h| *h < NH)
                                .collect();
                            self.phase = Phase::Probe;
                        } else {
                            self.phase = Phase::Done;
                        }
                    }
                },
                Phase::Probe => match self.probe_op(sim) {
                    Some(op) => return Some(op),
                    None => self.phase = Phase::Done,
                },
                Phase::Done => return None,
            }
        }
    }
}

// ---------------------------------------------------------------------------
// Scripted scheduler (replay, minimisation, sweep)
// ---------------------------------------------------------------------------

pub struct ScriptSched {
    pub ops: Vec<Op>,
    pub pos: usize,
}

impl ScriptSched {
    pub fn new(ops: Vec<Op>) -> Self {
        ScriptSched { ops, pos: 0 }
    }
}

impl Scheduler for ScriptSched {
    fn next(&mut self, _sim: &Sim) -> Option<Op> {
        let op = self.ops.get(self.pos).cloned();
        self.pos += 1;
        op
    }
}

pub fn class_is_tramp(c: &Class) -> bool {
    matches!(c, Class::Trampoline(_))
}

// ---------------------------------------------------------------------------
// E2: scheduler for the BlockWatcher component (C20)
// ---------------------------------------------------------------------------

pub struct WatcherSched {
    pub rng: Rng,
    steps: u32,
    phase: u8,
    end_steps: u32,
}

impl WatcherSched {
    pub fn new(seed: u64) -> Self {
        WatcherSched {
            rng: Rng::new(seed),
            steps: 0,
            phase: 0,
            end_steps: 0,
        }
    }
}

impl Scheduler for WatcherSched {
    fn next(&mut self, sim: &Sim) -> Option<Op> {
        if !sim.w.plugin_up {
            // start() failed: in the real process main() exits with it.
            return None;
        }
        let node = &sim.w.node;
        let c = &sim.w.cfg;
        let first_issued = node
            .rpcs
            .iter()
            .position(|r| matches!(r.state, RpcState::Issued));
        let first_ready = node
            .rpcs
            .iter()
            .position(|r| matches!(r.state, RpcState::ReplyReady(_)));
        if self.phase == 0 {
            self.steps += 1;
            if self.steps > 60 {
                self.phase = 1;
                return Some(Op::QuiesceMark);
            }
            let mut cands: Vec<(Op, u32)> = Vec::new();
            if let Some(i) = first_issued {
                let fault = if self.rng.permille(c.f_getinfo_fail) {
                    if self.rng.chance(1, 2) {
                        RpcFault::Transport
                    } else {
                        RpcFault::Code(-1)
                    }
                } else {
                    RpcFault::None
                };
                let deliver = !self.rng.permille(c.f_rpc_delay);
                cands.push((
                    Op::Apply {
                        rpc: sim.sel_of(i),
                        fault,
                        deliver,
                    },
                    60,
                ));
            }
            if let Some(i) = first_ready {
                cands.push((Op::Reply { rpc: sim.sel_of(i) }, 25));
            }
            let h = node.height;
            let told = sim.or.watch_told;
            let nb = match self.rng.below(9) {
                0 => h,
                1 => h.saturating_sub(1 + self.rng.below(5) as u32),
                2 => told.saturating_add(1),
                3 => told,
                4 => told.saturating_sub(1),
                5 => 0,
                6 => h.saturating_add(self.rng.below(3) as u32),
                7 => self.rng.below(1_000_000) as u32,
                _ => h,
            };
            cands.push((
                Op::Comp {
                    cmd: "new_block".into(),
                    arg: nb as u64,
                },
                30,
            ));
            // Two height sources in the same step (two notifications, or a
            // notification together with a poll reply).
            {
                let nb2 = match self.rng.below(4) {
                    0 => nb.saturating_sub(1 + self.rng.below(20) as u32),
                    1 => nb.saturating_add(1 + self.rng.below(20) as u32),
                    2 => told.saturating_add(2),
                    _ => h,
                };
                let mut ops = vec![
                    Op::Comp {
                        cmd: "new_block".into(),
                        arg: nb as u64,
                    },
                    Op::Comp {
                        cmd: "new_block".into(),
                        arg: nb2 as u64,
                    },
                ];
                if let Some(i) = first_ready {
                    if self.rng.chance(1, 2) {
                        ops.insert(self.rng.below(3) as usize, Op::Reply { rpc: sim.sel_of(i) });
                    }
                }
                cands.push((Op::Multi { ops }, 25));
            }
            cands.push((
                Op::Block {
                    k: 1 + self.rng.below(3) as u32,
                    notify: NotifyMode::Drop,
                },
                20,
            ));
            let ms = *self.rng.pick(&[1u64, 50, 1000, 30_000, 59_999, 60_000, 60_001]);
            cands.push((Op::Time { ms }, 25));
            let w: Vec<u32> = cands.iter().map(|c| c.1).collect();
            let i = self.rng.pick_weighted(&w);
            return Some(cands.swap_remove(i).0);
        }
        // End phase: drain, mark, wait one poll interval, answer promptly.
        self.end_steps += 1;
        if self.end_steps > 40 {
            return None;
        }
        if let Some(i) = first_ready {
            return Some(Op::Reply { rpc: sim.sel_of(i) });
        }
        if let Some(i) = first_issued {
            return Some(Op::Apply {
                rpc: sim.sel_of(i),
                fault: RpcFault::None,
                deliver: true,
            });
        }
        match self.phase {
            1 => {
                self.phase = 2;
                Some(Op::Block {
                    k: 1 + self.rng.below(4) as u32,
                    notify: NotifyMode::Drop,
                })
            }
            2 => {
                self.phase = 3;
                Some(Op::CatchupMark)
            }
            3 => {
                self.phase = 4;
                Some(Op::Time { ms: 60_002 })
            }
            4 => {
                self.phase = 5;
                Some(Op::Time { ms: 1 })
            }
            _ => None,
        }
    }
}

/// Plays a fixed prefix, then hands over to a fault-free quiesce (+ probe) tail.
pub struct SweepSched {
    pub prefix: Vec<Op>,
    pub pos: usize,
    pub tail: RandomSched,
}

impl Scheduler for SweepSched {
    fn next(&mut self, sim: &Sim) -> Option<Op> {
        if self.pos < self.prefix.len() {
            self.pos += 1;
            return Some(self.prefix[self.pos - 1].clone());
        }
        self.tail.next(sim)
    }
}
