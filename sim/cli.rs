//! Command line of `trampsim`.

use std::collections::BTreeMap;

use serde_json::json;

use super::check::{self, DEFAULT_SEED};
use super::content;
use super::replay::{self, ReplayFile};
use super::rng::mix;
use super::sched::PROFILES;
use super::seam;

pub fn process_setup() {
    std::env::set_var("RUST_BACKTRACE", "0");
    std::env::set_var("RUST_LIB_BACKTRACE", "0");
    std::env::set_var("CLN_PLUGIN_LOG", "trace");
    seam::install_panic_hook();
    seam::pin_tracing_interest();
    let _ = content::pool();
}

fn base_seed() -> u64 {
    std::env::var("VERIF_SEED")
        .ok()
        .and_then(|s| s.parse::<u64>().ok())
        .unwrap_or(DEFAULT_SEED)
}

/// Determinism self-test: every seed is executed twice (once on many worker
/// threads, once on one) and the event-log hashes must agree; plus replay
/// round trip (recorded op list under the scripted scheduler gives the same hash).
pub fn selftest(seeds_per_profile: u64, roundtrip: u64, verbose: bool) -> Result<serde_json::Value, String> {
    let t0 = std::time::Instant::now();
    let base = mix(base_seed(), 0x5E1F);
    let jobs: Vec<(usize, u64)> = (0..PROFILES.len())
        .flat_map(|p| (0..seeds_per_profile).map(move |i| (p, i)))
        .collect();
    let run_all = |workers: usize| -> Vec<u64> {
        let next = std::sync::atomic::AtomicUsize::new(0);
        let out = std::sync::Mutex::new(vec![0u64; jobs.len()]);
        std::thread::scope(|s| {
            for _ in 0..workers {
                s.spawn(|| loop {
                    let i = next.fetch_add(1, std::sync::atomic::Ordering::SeqCst);
                    if i >= jobs.len() {
                        break;
                    }
                    let (p, k) = jobs[i];
                    let seed = mix(base, (p as u64) << 32 | k);
                    let sim = check::run_random(seed, PROFILES[p], k % 3 == 0, false);
                    out.lock().unwrap()[i] = sim.log.0 ^ sim.trace.0.rotate_left(7);
                });
            }
        });
        out.into_inner().unwrap()
    };
    let many = std::thread::available_parallelism().map(|n| n.get()).unwrap_or(4);
    let a = run_all(many);
    let b = run_all(1.max(many / 8));
    let mut diverged = 0;
    for (i, (x, y)) in a.iter().zip(b.iter()).enumerate() {
        if x != y {
            diverged += 1;
            if verbose || diverged <= 3 {
                let (p, k) = jobs[i];
                eprintln!(
                    "selftest: divergence profile {} seed {}",
                    PROFILES[p],
                    mix(base, (p as u64) << 32 | k)
                );
            }
        }
    }
    // Replay round trip.
    let mut rt_bad = 0;
    for i in 0..roundtrip {
        let p = (i as usize) % PROFILES.len();
        let seed = mix(base, 0xABCD_0000 + i);
        let sim = check::run_random(seed, PROFILES[p], i % 2 == 0, false);
        let cfg = check::cfg_for(seed, PROFILES[p]);
        let s2 = replay::run_script(seed, &cfg, &sim.ops_done, false);
        if s2.log.0 != sim.log.0 {
            rt_bad += 1;
            eprintln!("selftest: replay round trip differs, profile {} seed {}", PROFILES[p], seed);
        }
    }
    let res = json!({
        "seeds": jobs.len(),
        "executed_twice_with_worker_counts": [many, 1.max(many / 8)],
        "diverged": diverged,
        "replay_round_trips": roundtrip,
        "replay_round_trip_mismatches": rt_bad,
        "wall_s": t0.elapsed().as_secs_f64(),
    });
    if diverged > 0 || rt_bad > 0 {
        return Err(format!("determinism self-test failed: {}", res));
    }
    Ok(res)
}

fn do_check(prop: &str, tier: &str) -> i32 {
    let seed = base_seed();
    let findings = replay::load_findings("/verif/known_findings.json");
    // Dedicated engines first.
    if let Some(code) = super::special::check_special(prop, tier, seed, &findings) {
        return code;
    }
    let plan = match check::plan(prop) {
        Some(p) => p,
        None => {
            eprintln!("no check for property {}", prop);
            return 2;
        }
    };
    let st = match selftest(if tier == "thorough" { 60 } else { 12 }, 24, false) {
        Ok(v) => v,
        Err(e) => {
            eprintln!("HARNESS ERROR: {}", e);
            return 2;
        }
    };
    // Systematic single-fault sweep first (C08, C09).
    let mut extra = json!({"selftest": st});
    if prop == "C08" || prop == "C09" {
        let static_prop: &'static str = if prop == "C08" { "C08" } else { "C09" };
        let n_bases = if tier == "thorough" { 600 } else { 64 };
        let sw = check::run_sweep(static_prop, seed, n_bases, &findings);
        println!(
            "{} sweep: {} base scenarios, {} crash points, {} single write faults, {} runs in {:.1}s; probes resolved {}/{}",
            prop, sw.bases, sw.crash_points, sw.write_faults, sw.runs, sw.wall_s, sw.probes_resolved, sw.probes_total
        );
        extra["sweep"] = json!({
            "base_scenarios": sw.bases, "crash_points_enumerated": sw.crash_points, "single_write_faults_enumerated": sw.write_faults,
            "runs": sw.runs, "recovery_probes_resolved": sw.probes_resolved, "hashes_probed": sw.probes_total,
            "c08_invariant_evaluations_with_live_part": sw.c08_evaluations, "wall_s": sw.wall_s,
            "exhaustive_over": "every prefix of each base scenario (crash with and without losing the last answers) and every datastore write of each base scenario (rejected / applied-but-reported-failed), one fault per run",
            "sample": sw.sample,
        });
        for ((p, r, k), (c, text)) in &sw.known {
            println!("KNOWN-FINDING: property={} [{} / {}] {} (seen in {} sweep runs)", p, r, k, text, c);
        }
        if let Some((vseed, cfg, ops, v)) = sw.target.first() {
            match check::make_replay_from_ops(*vseed, cfg, ops, v, "systematic sweep") {
                Ok((rf, path)) => {
                    println!(
                        "violation (sweep): {} [{}] {} ({} ops minimised from {})",
                        rf.property, rf.rule, rf.detail, rf.ops.len(), rf.original_ops
                    );
                    println!("VIOLATION property={} replay={}", prop, path);
                    let out = check::CheckOutcome { agg: Default::default(), wall_s: sw.wall_s, runs_planned: sw.runs, profiles: vec![] };
                    let mut o2 = out;
                    o2.agg.runs = sw.runs;
                    o2.agg.traces_nontrivial.insert(1);
                    o2.agg.traces_nontrivial.insert(2);
                    o2.agg.samples.push(extra["sweep"]["sample"].clone());
                    check::write_evidence(&plan, tier, seed, &o2, sw.target.len(), extra);
                    return 1;
                }
                Err(e) => {
                    eprintln!("HARNESS ERROR: {}", e);
                    return 2;
                }
            }
        }
    }
    let out = check::run_plan(&plan, tier, seed, &findings);
    println!(
        "{} {}: {} runs in {:.1}s ({} non-trivial, {} distinct non-trivial traces, {} abstract states), faults fired: {}",
        prop,
        tier,
        out.agg.runs,
        out.wall_s,
        out.agg.nontrivial_runs,
        out.agg.traces_nontrivial.len(),
        out.agg.states.len(),
        out.agg.faults.values().sum::<u64>()
    );
    for a in &plan.antecedents {
        if out.agg.reach.get(a).copied().unwrap_or(0) == 0 {
            println!("WARNING: reach probe {} stayed at zero", a);
        }
    }
    let mut code = 0;
    let mut nviol = 0;
    if let Some((_idx, vseed, profile, v)) = out.agg.target.first() {
        nviol = out.agg.target.len();
        let probe = plan
            .profiles
            .iter()
            .chain(plan.thorough_profiles.iter())
            .find(|p| p.0 == profile.as_str())
            .map(|p| p.2)
            .unwrap_or(false);
        match check::make_replay(*vseed, profile, probe, v) {
            Ok((rf, path)) => {
                println!(
                    "violation: {} [{}] {} (seed {}, profile {}, {} ops minimised from {})",
                    rf.property, rf.rule, rf.detail, rf.seed, profile, rf.ops.len(), rf.original_ops
                );
                println!("VIOLATION property={} replay={}", prop, path);
                code = 1;
            }
            Err(e) => {
                eprintln!("HARNESS ERROR: {}", e);
                return 2;
            }
        }
    }
    for ((p, r, k), (c, text)) in &out.agg.known_hits {
        println!("KNOWN-FINDING: property={} [{} / {}] {} (seen in {} runs)", p, r, k, text, c);
    }
    check::write_evidence(&plan, tier, seed, &out, nviol, extra);
    code
}

fn do_replay(path: &str, dump: bool) -> i32 {
    let s = match std::fs::read_to_string(path) {
        Ok(s) => s,
        Err(e) => {
            eprintln!("cannot read {}: {}", path, e);
            return 2;
        }
    };
    let rf: ReplayFile = match serde_json::from_str(&s) {
        Ok(r) => r,
        Err(e) => {
            eprintln!("cannot parse {}: {}", path, e);
            return 2;
        }
    };
    if rf.harness_version != replay::HARNESS_VERSION {
        eprintln!(
            "replay file is for harness version {}, this is {}",
            rf.harness_version,
            replay::HARNESS_VERSION
        );
        return 2;
    }
    if rf.engine != "E1" {
        return super::special::replay_special(&rf, dump);
    }
    let sim = replay::run_script(rf.seed, &rf.cfg, &rf.ops, dump);
    if let Some(d) = &sim.event_dump {
        for l in d {
            println!("{}", l);
        }
    }
    let hit = sim
        .or
        .violations
        .iter()
        .find(|v| replay::same(v, &rf.property, &rf.rule, &rf.key));
    match hit {
        Some(v) => {
            println!("reproduced: {} [{}] {}", v.prop, v.rule, v.detail);
            let h = format!("{:016x}", sim.log.0);
            if h != rf.loghash {
                println!("note: event-log hash {} differs from recorded {} (code under test changed?)", h, rf.loghash);
            }
            println!("VIOLATION property={} replay={}", rf.property, path);
            1
        }
        None => {
            println!("not reproduced: {} [{}] did not fire", rf.property, rf.rule);
            for v in &sim.or.violations {
                println!("  (other: {} [{}] {})", v.prop, v.rule, v.detail);
            }
            0
        }
    }
}

pub fn cli() -> i32 {
    process_setup();
    let args: Vec<String> = std::env::args().collect();
    let get = |name: &str| -> Option<String> {
        args.iter()
            .position(|a| a == name)
            .and_then(|i| args.get(i + 1).cloned())
    };
    let has = |name: &str| args.iter().any(|a| a == name);
    let cmd = args.get(1).map(|s| s.as_str()).unwrap_or("help");
    match cmd {
        "check" => {
            let prop = args.get(2).cloned().unwrap_or_default();
            let tier = args.get(3).cloned().unwrap_or_else(|| {
                std::env::var("VERIF_TIER").unwrap_or_else(|_| "quick".into())
            });
            do_check(&prop, &tier)
        }
        "replay" => match args.get(2) {
            Some(p) => do_replay(p, has("--dump")),
            None => 2,
        },
        "selftest" => {
            let n: u64 = get("--seeds").and_then(|s| s.parse().ok()).unwrap_or(450);
            match selftest(n, 500, true) {
                Ok(v) => {
                    println!("selftest ok: {}", v);
                    0
                }
                Err(e) => {
                    eprintln!("{}", e);
                    2
                }
            }
        }
        "run" => {
            let seed: u64 = get("--seed").and_then(|s| s.parse().ok()).unwrap_or(1);
            let profile = get("--profile").unwrap_or_else(|| "plain".into());
            let sim = check::run_random(seed, &profile, has("--probe"), true);
            for l in sim.event_dump.as_ref().unwrap() {
                println!("{}", l);
            }
            println!("cfg: {:?}", sim.w.cfg);
            println!("stats: {:?}", sim.stats);
            println!("reach: {:?}", sim.or.reach);
            for v in &sim.or.violations {
                println!(
                    "VIOLATION {} {} [{}] step={} t={}ms: {}",
                    v.prop, v.rule, v.key, v.step, v.now_ms, v.detail
                );
            }
            println!("loghash {:016x}", sim.log.0);
            0
        }
        "batch" => {
            let base: u64 = get("--seed").and_then(|s| s.parse().ok()).unwrap_or(1);
            let n: u64 = get("--runs").and_then(|s| s.parse().ok()).unwrap_or(1000);
            let profile = get("--profile").unwrap_or_else(|| "plain".into());
            let probe = has("--probe");
            let t0 = std::time::Instant::now();
            let mut counts: BTreeMap<(String, String, String), (u64, u64)> = Default::default();
            let mut reach: BTreeMap<&'static str, u64> = Default::default();
            let mut faults: BTreeMap<&'static str, u64> = Default::default();
            let mut answers = [0u64; 5];
            let mut ops = 0u64;
            for i in 0..n {
                let seed = mix(base, i);
                if n == 1 {
                    println!("run seed {}", seed);
                }
                let sim = check::run_random(seed, &profile, probe, false);
                for v in &sim.or.violations {
                    let e = counts
                        .entry((v.prop.to_string(), v.rule.to_string(), v.key.clone()))
                        .or_insert((0, seed));
                    e.0 += 1;
                }
                for (k, v) in &sim.or.reach {
                    *reach.entry(k).or_insert(0) += v;
                }
                for (k, v) in &sim.stats.faults {
                    *faults.entry(k).or_insert(0) += v;
                }
                for k in 0..5 {
                    answers[k] += sim.stats.answers[k];
                }
                ops += sim.stats.ops;
            }
            println!("{} runs in {:?}; ops {}", n, t0.elapsed(), ops);
            println!("answers continue/fail/resolve/rpc-error/malformed: {:?}", answers);
            if has("--verbose") {
                println!("reach: {:#?}", reach);
                println!("faults: {:#?}", faults);
            }
            for ((p, r, k), (c, s)) in &counts {
                println!("{} {} [{}] x{} e.g. seed {}", p, r, k, c, s);
            }
            0
        }
        _ => {
            eprintln!("usage: trampsim check <ID> quick|thorough | replay <file> [--dump] | selftest | run --seed N --profile P | batch ...");
            2
        }
    }
}
