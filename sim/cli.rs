//! Command line of `trampsim`.

use super::content;
use super::engine::Sim;
use super::rng::{mix, Rng};
use super::sched::{profile_cfg, RandomSched};
use super::seam;

pub fn process_setup() {
    std::env::set_var("RUST_BACKTRACE", "0");
    std::env::set_var("RUST_LIB_BACKTRACE", "0");
    std::env::set_var("CLN_PLUGIN_LOG", "trace");
    seam::install_panic_hook();
    let _ = content::pool();
}

pub fn run_one(seed: u64, profile: &str, dump: bool, probe: bool) -> Sim {
    let mut content = Rng::new(mix(seed, 0xC0FFEE));
    let cfg = profile_cfg(profile, &mut content);
    let mut sim = Sim::new(seed, cfg);
    if dump {
        sim.event_dump = Some(Vec::new());
    }
    let mut sched = RandomSched::new(mix(seed, 0x5C4ED), probe);
    sim.run(&mut sched);
    sim
}

pub fn cli() -> i32 {
    process_setup();
    let args: Vec<String> = std::env::args().collect();
    let get = |name: &str| -> Option<String> {
        args.iter()
            .position(|a| a == name)
            .and_then(|i| args.get(i + 1).cloned())
    };
    let cmd = args.get(1).map(|s| s.as_str()).unwrap_or("help");
    match cmd {
        "run" => {
            let seed: u64 = get("--seed").and_then(|s| s.parse().ok()).unwrap_or(1);
            let profile = get("--profile").unwrap_or_else(|| "plain".into());
            let sim = run_one(seed, &profile, true, args.iter().any(|a| a == "--probe"));
            for l in sim.event_dump.as_ref().unwrap() {
                println!("{}", l);
            }
            println!("cfg: {:?}", sim.w.cfg);
            println!("stats: {:?}", sim.stats);
            println!("reach: {:?}", sim.or.reach);
            for v in &sim.or.violations {
                println!("VIOLATION {} {} step={} t={}ms: {}", v.prop, v.rule, v.step, v.now_ms, v.detail);
            }
            println!("loghash {:016x}", sim.log.0);
            0
        }
        "batch" => {
            let base: u64 = get("--seed").and_then(|s| s.parse().ok()).unwrap_or(1);
            let n: u64 = get("--runs").and_then(|s| s.parse().ok()).unwrap_or(1000);
            let profile = get("--profile").unwrap_or_else(|| "plain".into());
            let probe = args.iter().any(|a| a == "--probe");
            let t0 = std::time::Instant::now();
            let mut counts: std::collections::BTreeMap<(String, String), (u64, u64)> = Default::default();
            let mut reach: std::collections::BTreeMap<&'static str, u64> = Default::default();
            let mut faults: std::collections::BTreeMap<&'static str, u64> = Default::default();
            let mut answers = [0u64; 5];
            let mut ops = 0u64;
            for i in 0..n {
                let seed = mix(base, i);
                let sim = run_one(seed, &profile, false, probe);
                for v in &sim.or.violations {
                    let e = counts.entry((v.prop.to_string(), v.rule.to_string())).or_insert((0, seed));
                    e.0 += 1;
                }
                for (k, v) in &sim.or.reach { *reach.entry(k).or_insert(0) += v; }
                for (k, v) in &sim.stats.faults { *faults.entry(k).or_insert(0) += v; }
                for k in 0..5 { answers[k] += sim.stats.answers[k]; }
                ops += sim.stats.ops;
            }
            println!("{} runs in {:?}; ops {}", n, t0.elapsed(), ops);
            println!("answers continue/fail/resolve/rpc-error/malformed: {:?}", answers);
            println!("reach: {:#?}", reach);
            println!("faults: {:#?}", faults);
            for ((p, r), (c, s)) in &counts {
                println!("{} {} x{} e.g. seed {}", p, r, c, s);
            }
            0
        }
        _ => {
            eprintln!("usage: trampsim run|batch ...");
            2
        }
    }
}
