#!/bin/sh
# Builds the simulator from /repo's current tree while holding the variant lock
# (so it never races with tools/build_variant.sh, which patches /repo temporarily).
exec 9>/tmp/variant.lock; flock 9
git -C /repo diff --quiet || echo "WARNING: /repo has local changes"
cd /verif/simcrate && CARGO_NET_OFFLINE=true cargo build --release --offline 2>&1 | grep -E "^(error|warning: unused)" -A12 | head -60
