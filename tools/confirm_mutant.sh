#!/bin/sh
# usage: tools/confirm_mutant.sh <dir with patch.diff demo.diff> <scratch worktree>
# Confirms in a scratch worktree: suite passes with patch; demo fails with patch; demo passes without.
d="$1"; wt="$2"
cd "$wt" || exit 2
git checkout -q -- . && git clean -qfd src tests
run() { CARGO_NET_OFFLINE=true cargo test --offline 2>&1 | grep -E "^test result|FAILED|failed" | tr '\n' ' '; }
git apply "$d/patch.diff" || { echo "PATCH-DOES-NOT-APPLY"; exit 1; }
a=$(run); echo "with patch: $a"
git apply "$d/demo.diff" || { echo "DEMO-DOES-NOT-APPLY"; }
b=$(run); echo "with patch+demo: $b"
git checkout -q -- . && git clean -qfd src tests
git apply "$d/demo.diff"
c=$(run); echo "demo only: $c"
git checkout -q -- . && git clean -qfd src tests
