#!/bin/sh
# usage: tools/soak.sh <first seed> <last seed> : every quick check under each VERIF_SEED; prints only alarms.
mkdir -p /tmp/soak-evidence /tmp/soak-replays
for s in $(seq $1 $2); do
  for p in C01 C02 C03 C04 C05 C06 C07 C08 C09 C10 C11 C12 C13 C14 C15 C16 C17 C19 C20; do
    out=$(VERIF_SEED=$s VERIF_WORKERS=${SOAK_WORKERS:-8} VERIF_EVIDENCE_DIR=/tmp/soak-evidence VERIF_REPLAY_DIR=/tmp/soak-replays /tmp/soak-bin/trampsim check $p quick 2>&1)
    rc=$?
    if [ $rc -ne 0 ] || echo "$out" | grep -q "VIOLATION\|HARNESS\|KNOWN-FINDING\|WARNING"; then
      echo "### seed=$s prop=$p rc=$rc"; echo "$out" | grep -E "VIOLATION|violation|HARNESS|KNOWN|WARNING|diverg"
    fi
  done
  echo "seed $s done $(date +%H:%M:%S)"
done
