#!/bin/sh
# usage: tools/build_variant.sh <patch.diff> <out binary>
# Applies a patch to /repo, builds the simulator from it, copies the binary, restores /repo.
# /repo is modified only while the build runs (lock: /tmp/variant.lock).
patch="$1"; out="$2"
exec 9>/tmp/variant.lock; flock 9
git -C /repo diff --quiet || { echo "/repo has local changes"; exit 2; }
git -C /repo apply "$patch" || { echo "patch does not apply: $patch"; exit 2; }
( cd /verif/simcrate && CARGO_NET_OFFLINE=true cargo build --release --offline >/tmp/variant-build.log 2>&1 ); rc=$?
if [ $rc -eq 0 ]; then mkdir -p "$(dirname "$out")"; cp /verif/target/release/trampsim "$out"; fi
git -C /repo checkout -- . ; git -C /repo clean -qfd src tests 2>/dev/null
( cd /verif/simcrate && CARGO_NET_OFFLINE=true cargo build --release --offline >/dev/null 2>&1 )
[ $rc -eq 0 ] || { echo "BUILD FAILED for $patch"; tail -20 /tmp/variant-build.log; exit 2; }
echo "built $out"
