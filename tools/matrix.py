#!/usr/bin/env python3
"""tools/matrix.py [--slots N] [--only ID,...] : regression matrix over /verif/seeded.

For every kept mutant: build the simulator against a patched scratch worktree
(tools/pv_setup.sh / pv_build.sh, never /repo itself), run the checks its
meta.json names under detected_by (quick, or thorough where it says so) and
report whether at least the first one still raises a VIOLATION. Results go to
/tmp/matrix/<id>.txt and a summary to stdout. Scratch only.
"""
import json, os, subprocess, sys, glob, threading, queue, re
slots = 4
only = None
args = sys.argv[1:]
while args:
    a = args.pop(0)
    if a == "--slots": slots = int(args.pop(0))
    elif a == "--only": only = set(args.pop(0).split(","))
os.makedirs("/tmp/matrix", exist_ok=True)
jobs = queue.Queue()
for d in sorted(glob.glob("/verif/seeded/*/")):
    mid = os.path.basename(d.rstrip("/"))
    if not os.path.exists(d + "patch.diff") or not os.path.exists(d + "meta.json"): continue
    if only and mid not in only: continue
    meta = json.load(open(d + "meta.json"))
    jobs.put((mid, d + "patch.diff", meta.get("detected_by", [])))
results = {}
lock = threading.Lock()
def worker(slot):
    subprocess.run(["/verif/tools/pv_setup.sh", str(slot)], stdout=subprocess.DEVNULL)
    while True:
        try: mid, patch, det = jobs.get_nowait()
        except queue.Empty: return
        out = f"/tmp/matrix/bin-{slot}/trampsim"
        b = subprocess.run(["/verif/tools/pv_build.sh", str(slot), patch, out], capture_output=True, text=True)
        if b.returncode != 0:
            with lock: results[mid] = ("BUILD/APPLY-FAIL", b.stdout.strip().splitlines()[:1])
            print(mid, "BUILD/APPLY-FAIL", flush=True); continue
        res = []
        for chk in det:
            m = re.match(r"(C\d+)(\((thorough)\))?", chk.strip())
            if not m: continue
            prop, tier = m.group(1), ("thorough" if m.group(3) else "quick")
            env = dict(os.environ, VERIF_EVIDENCE_DIR=f"/tmp/matrix/ev-{slot}", VERIF_REPLAY_DIR=f"/tmp/matrix/rp-{slot}")
            r = subprocess.run([out, "check", prop, tier], capture_output=True, text=True, env=env)
            viol = [l for l in r.stdout.splitlines() if l.startswith("violation") or l.startswith("VIOLATION")]
            rule = re.search(r"\[([a-z0-9-]+)", viol[0]).group(1) if viol and re.search(r"\[([a-z0-9-]+)", viol[0]) else ""
            res.append((prop, tier, r.returncode, rule))
        ok = any(rc == 1 for (_, _, rc, _) in res)
        with lock: results[mid] = ("CAUGHT" if ok else "MISSED", res)
        open(f"/tmp/matrix/{mid}.txt", "w").write(json.dumps(results[mid]))
        print(mid, results[mid][0], " ".join(f"{p}:{t[0]}:{rc}:{rule}" for p, t, rc, rule in res), flush=True)
ts = [threading.Thread(target=worker, args=(i,)) for i in range(slots)]
[t.start() for t in ts]; [t.join() for t in ts]
n = len(results); c = sum(1 for v in results.values() if v[0] == "CAUGHT")
print(f"SUMMARY: {c}/{n} caught; not caught: {sorted(k for k, v in results.items() if v[0] != 'CAUGHT')}")
