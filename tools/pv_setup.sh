#!/bin/sh
# usage: tools/pv_setup.sh <slot>
# Scratch build slot /tmp/pv-<slot>: its own worktree of /repo (HEAD), its own
# copy of the shadow crate and its own target dir, so that several patched
# variants can be built at once without touching /repo. Scratch only: nothing
# registered in MANIFEST.json uses this.
n="$1"; d=/tmp/pv-$n
[ -d $d/repo ] || git -C /repo worktree add -q --detach $d/repo HEAD
mkdir -p $d/simcrate/src/bin $d/simcrate/.cargo
sed -e "s#path = \"/repo/src/main.rs\"#path = \"$d/repo/src/main.rs\"#" \
    -e "s#path = \"../verif_macros\"#path = \"/verif/verif_macros\"#" \
    -e "s#path = \"../vendor/tokio\"#path = \"/verif/vendor/tokio\"#" /verif/simcrate/Cargo.toml > $d/simcrate/Cargo.toml
cp /verif/simcrate/Cargo.lock $d/simcrate/Cargo.lock
cp /verif/simcrate/src/bin/trampsim.rs $d/simcrate/src/bin/trampsim.rs
sed -e "s#target-dir = \"/verif/target\"#target-dir = \"$d/target\"#" /verif/simcrate/.cargo/config.toml > $d/simcrate/.cargo/config.toml
[ -d $d/target ] || cp -r /verif/target $d/target
echo "slot $d ready"
