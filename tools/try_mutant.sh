#!/bin/sh
# usage: tools/try_mutant.sh <patch.diff> <tier> <PROP>...
# Applies a patch to /repo's working tree, runs the given checks, restores /repo.
patch="$1"; tier="$2"; shift 2
git -C /repo diff --quiet || { echo "/repo has local changes"; exit 2; }
git -C /repo apply "$patch" || { echo "patch does not apply"; exit 2; }
for p in "$@"; do
  echo "=== $p ($tier) with $(basename $(dirname $patch))/$(basename $patch)"
  VERIF_EVIDENCE_DIR=/tmp/mut-evidence VERIF_REPLAY_DIR=/tmp/mut-replays /verif/check "$p" "$tier" 2>&1 | grep -E "^(VIOLATION|KNOWN-FINDING|violation|HARNESS|C[0-9]+ (quick|thorough|sweep))" 
  echo "exit=$?"
done
git -C /repo checkout -- . 
git -C /repo status --short
