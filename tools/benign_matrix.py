#!/usr/bin/env python3
"""tools/benign_matrix.py [--slots N] [--tier quick|thorough] <patch.diff>... : negative controls.

Builds the simulator against each property-preserving patch in a scratch slot
(never /repo) and runs every claimed check; any non-zero exit is printed.
"""
import os, subprocess, sys, threading, queue
slots, tier, patches = 4, "quick", []
args = sys.argv[1:]
while args:
    a = args.pop(0)
    if a == "--slots": slots = int(args.pop(0))
    elif a == "--tier": tier = args.pop(0)
    else: patches.append(os.path.abspath(a))
PROPS = "C01 C02 C03 C04 C05 C06 C07 C08 C09 C10 C11 C12 C13 C14 C15 C16 C17 C19 C20".split()
jobs = queue.Queue(); [jobs.put(p) for p in patches]
def worker(slot):
    subprocess.run(["/verif/tools/pv_setup.sh", str(slot)], stdout=subprocess.DEVNULL)
    while True:
        try: patch = jobs.get_nowait()
        except queue.Empty: return
        name = "/".join(patch.split("/")[-4:])
        out = f"/tmp/matrix/bbin-{slot}/trampsim"
        b = subprocess.run(["/verif/tools/pv_build.sh", str(slot), patch, out], capture_output=True, text=True)
        if b.returncode != 0:
            print(name, "BUILD/APPLY-FAIL", b.stdout.strip()[:300], flush=True); continue
        bad = []
        for prop in PROPS:
            env = dict(os.environ, VERIF_EVIDENCE_DIR=f"/tmp/matrix/bev-{slot}", VERIF_REPLAY_DIR=f"/tmp/matrix/brp-{'-'.join(patch.split('/')[-4:-1])}")
            r = subprocess.run([out, "check", prop, tier], capture_output=True, text=True, env=env)
            if r.returncode != 0:
                v = [l for l in r.stdout.splitlines() if l.startswith("violation")]
                bad.append(f"{prop} rc={r.returncode} {v[0][:260] if v else r.stderr[-200:]}")
        print(name, "SILENT" if not bad else "ALARM", *bad, sep="\n   " if bad else " ", flush=True)
ts = [threading.Thread(target=worker, args=(4 + i,)) for i in range(slots)]
[t.start() for t in ts]; [t.join() for t in ts]
