#!/bin/sh
# usage: tools/pv_build.sh <slot> <patch.diff> <out binary>
n="$1"; patch="$2"; out="$3"; d=/tmp/pv-$n
cd $d/repo || exit 2
git checkout -q -- . ; git clean -qfd src tests 2>/dev/null
git -c advice.detachedHead=false checkout -q --detach $(git -C /repo rev-parse HEAD)
git apply "$patch" || { echo "patch does not apply: $patch"; exit 2; }
( cd $d/simcrate && CARGO_NET_OFFLINE=true cargo build --release --offline >$d/build.log 2>&1 ); rc=$?
git checkout -q -- . ; git clean -qfd src tests 2>/dev/null
[ $rc -eq 0 ] || { echo "BUILD FAILED for $patch"; tail -20 $d/build.log; exit 2; }
mkdir -p "$(dirname "$out")"; cp $d/target/release/trampsim "$out"; echo "built $out"
