#!/bin/sh
# Runs every thorough check with a private copy of the (clean) binary; evidence/replays go to /tmp/thorough-out.
mkdir -p /tmp/thorough-out/evidence /tmp/thorough-out/replays /tmp/thorough-bin
cp /verif/target/release/trampsim /tmp/thorough-bin/trampsim
for p in ${PROPS:-C01 C02 C03 C04 C05 C06 C07 C08 C09 C10 C11 C12 C13 C14 C15 C16 C17 C19 C20}; do
  s=$(date +%s)
  out=$(VERIF_EVIDENCE_DIR=/tmp/thorough-out/evidence VERIF_REPLAY_DIR=/tmp/thorough-out/replays /tmp/thorough-bin/trampsim check $p thorough 2>&1); rc=$?
  e=$(date +%s)
  echo "### $p rc=$rc $((e-s))s: $(echo "$out" | grep -E "^C[0-9]+ (thorough|sweep)|VIOLATION|violation|KNOWN|HARNESS|WARNING" | cut -c1-300 | tr '\n' '|')"
done
