#!/usr/bin/env python3
"""tools/save_mutant.py <src dir> <id> <property> <needs> <caught_by> <how> : copies a confirmed mutant into /verif/seeded/<id>/"""
import sys, os, shutil, json
src, mid, prop, needs, caught, how = sys.argv[1:7]
dst = f"/verif/seeded/{mid}"
os.makedirs(dst, exist_ok=True)
for f in ("patch.diff", "demo.diff", "notes.md"):
    if os.path.exists(os.path.join(src, f)):
        shutil.copy(os.path.join(src, f), os.path.join(dst, f))
meta = {
  "id": mid, "breaks_property": prop,
  "needs_to_manifest": needs,
  "origin": "independent sub-agent given only the property text and a scratch worktree",
  "confirmed": "scratch worktree /tmp/wt-confirm: existing 56 tests pass with patch.diff; demo.diff fails with patch.diff applied and passes without (tools/confirm_mutant.sh)",
  "detected_by": caught.split(","),
  "what_i_ran": how,
}
json.dump(meta, open(os.path.join(dst, "meta.json"), "w"), indent=1)
print("saved", dst)
