#!/bin/sh
# usage: tools/run_variant.sh <binary> <tier> <PROP>...   (evidence/replays go to /tmp/variant-out)
bin="$1"; tier="$2"; shift 2
mkdir -p /tmp/variant-out/evidence /tmp/variant-out/replays
for p in "$@"; do
  out=$(VERIF_EVIDENCE_DIR=/tmp/variant-out/evidence VERIF_REPLAY_DIR=/tmp/variant-out/replays "$bin" check "$p" "$tier" 2>&1); rc=$?
  echo "--- $p rc=$rc: $(echo "$out" | grep -E "^(VIOLATION|KNOWN-FINDING|violation|HARNESS)" | cut -c1-260 | tr '\n' ' ')"
done
