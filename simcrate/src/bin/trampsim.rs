fn main() {
    std::process::exit(trampoline::verif::cli());
}
