#!/usr/bin/env python3
"""Regenerates MANIFEST.json from one table (keeps it schema-valid)."""
import json, subprocess

E1 = "E1 process engine: real main() on a paused, seeded current_thread tokio runtime against SimNode"
TB = ("trusted base: SimNode (model of lightningd's datastore / sendpay / pay / htlc_accepted replay semantics, DESIGN.md 4.4), "
      "the reference classifier and fee predicate, tokio's paused clock; sampling, not proof")
checks = {
 "C01": ("exploration", "every resolve answer is checked against sha256(key)=htlc hash and a completed part / succeeded record for that hash; hash-mismatching invoices must not be treated as trampoline", "seeded schedule+fault search, oracle on every answer"),
 "C02": ("exploration", "every fail answer to a held trampoline HTLC is compared with the node's sendpay table and running pay commands at that instant, across crashes, replays, write faults (thorough: read faults)", "seeded schedule+fault search with crash/restart, oracle on every fail"),
 "C03": ("exploration", "every pay RPC is checked against the HTLCs delivered-and-unanswered at that instant: coverage incl. fee, maxfee budget, amount rules, invoice identity; counted HTLCs stay held", "seeded schedule search, oracle on every pay issue"),
 "C04": ("exploration", "maxdelay of every pay RPC is bounded by the lowest held expiry, the heights the process was told and the configured deltas (snapshot at attempt initiation)", "seeded schedule search with chain growth, oracle on every pay issue"),
 "C05": ("exploration", "no pay RPC is issued while a part of the hash is pending/complete or a pay command is running, across crashes and overlapping lifecycles", "seeded schedule+crash search, oracle on every pay issue"),
 "C06": ("exploration", "panic hook, exactly-one-answer per hook call, well-formed answers, no unanswered call after the fault-free end phase, MPP deadline, empty table when nothing is held", "seeded input+schedule+fault search, liveness after faults stop"),
 "C07": ("exploration", "members of one aggregated set receive byte-identical answers together; a rejected unfunded set never starts a payment", "seeded arrival-order search against a reference set state"),
 "C08": ("fault_enumeration", "record/part invariant evaluated after every applied effect of every run (every prefix is a crash image), with write faults and overlapping lifecycles; plus systematic single-fault sweep over base scenarios", "invariant over all prefixes + single-fault enumeration"),
 "C09": ("fault_enumeration", "after every run has quiesced, a fresh fully funded set per touched hash must settle (two attempts); plus systematic crash-point / write-fault sweep over base scenarios", "recovery probe after seeded runs + single-fault enumeration"),
 "C10": ("exploration", "every answer is compared with an independent reference classifier (signature, hash equality, amount reconciliation, self route hint); every pay carries exactly the classified invoice/amount", "differential against reference classifier under simulation"),
 "C11": ("exploration", "virtual-time stamp of every MPP-timeout failure is compared with the reference deadline: not before one timeout after the set's first HTLC was handed over, not later than the time left counted from the last reply the plugin needed, incl. restart path, clock jumps (also backwards at boot) and arrivals in the very instant of the deadline", "discrete-event time, deadline oracle"),
 "C12": ("exploration", "every 0x201a failure equals the configured policy encoding; first-HTLC rejection, unjustified rejection and readiness are compared in both directions with a 128-bit reference predicate on the real request path (one known finding: product overflow, pinned by an existing unit test)", "reference predicate on the request path, two-sided"),
 "C13": ("exploration", "non-trampoline HTLCs are answered continue in their delivery step with all RPCs frozen, cause no RPC, leave no table entry, payload rewrite is byte-compared", "seeded input search, same-step oracle"),
 "C14": ("exploration", "one to six hashes are frozen (all their RPCs withheld) or stalled (only their outgoing payment never progresses) at scheduler-chosen points, also across a restart; every other hash must still run to completion, all per-hash oracles hold and each pay request carries exactly what the hash's own HTLCs determine", "freeze / stall schedules, per-hash reference state"),
 "C17": ("exploration", "plugin output must tokenise into JSON objects separated by blank lines under arbitrary input chunking, short writes and back-pressure; one reply per request id", "byte-level chunking/back-pressure faults, stream oracle"),
}
manifest = {
 "version": 1,
 "setup_cmd": "cd /verif/simcrate && CARGO_NET_OFFLINE=true cargo build --release --offline && /verif/target/release/trampsim selftest --seeds 120",
 "hooks": {
  "guard": "--cfg breez_trampoline_verif",
  "enable": "shadow manifest /verif/simcrate (lib path = /repo/src/main.rs) built with RUSTFLAGS '--cfg breez_trampoline_verif --cfg tokio_unstable' and TRAMPOLINE_VERIF_HARNESS=/verif/sim/root.rs (see /verif/simcrate/.cargo/config.toml); every ./check invocation rebuilds it from /repo's working tree. The shadow crate (only) links tokio 1.38.0 vendored under /verif/vendor/tokio with two cfg-guarded scheduling points added (vendor/tokio/src/verif_hook.rs: a task may yield before an async Mutex is acquired; an elapsed Sleep of a spawned task may be observed one scheduling round later); /repo's Cargo.toml and Cargo.lock are untouched apart from hook H0",
  "baseline_off_cmd": "cd /repo && cargo test --workspace --no-fail-fast --offline",
  "source_commits": ["d69f6a7", "175d15a", "f03269f", "5b0a80f", "40c4ae6", "be75c4b", "a1971b1", "7648166"],
  "add_only": True
 },
 "engines": [
  {"name": "E1", "path": "/verif/sim/engine.rs", "serves_properties": sorted(checks.keys()), "kind_free_text": E1},
 ],
 "checks": [],
 "not_applicable": [
  {"property_id": "C18", "reason": "pure function of its input bytes (TLV decode/encode): no schedule, clock, fault or interleaving for a simulator to decide; its system-level consequences are decided under C06 (malformed metadata must not leave a hook call unanswered) and C13 (byte-exact payload rewrite)"}
 ],
 "notes": "all checks: ./check <ID> quick|thorough; VERIF_SEED honoured; exit 2 = harness error (never a violation); replay: ./check --replay <file>"
}
import os
extra = json.load(open('/verif/manifest_extra.json')) if os.path.exists('/verif/manifest_extra.json') else {}
for pid, v in extra.get("checks", {}).items():
    checks[pid] = tuple(v)
for e in extra.get("engines", []):
    manifest["engines"].append(e)
na_ids = set(extra.get("not_applicable_add", {}).keys())
for pid, reason in extra.get("not_applicable_add", {}).items():
    manifest["not_applicable"].append({"property_id": pid, "reason": reason})
for pid in sorted(checks):
    level, text, technique = checks[pid]
    manifest["checks"].append({
      "property_id": pid,
      "quick_cmd": f"./check {pid} quick",
      "thorough_cmd": f"./check {pid} thorough",
      "evidence_file": f"/verif/evidence/{pid}.json",
      "replay_cmd_template": "./check --replay {path}",
      "engine": "E1",
      "level_claimed": {"category": level, "text": text, "design_ref": "DESIGN.md section 9 (" + pid + ")"},
      "level_note": TB,
      "technique": "deterministic simulation with fault injection: " + technique,
    })
claimed = set(checks)
all_ids = [json.loads(l)["id"] for l in open('/verif/properties.jsonl')]
for pid in all_ids:
    if pid not in claimed and pid not in [n["property_id"] for n in manifest["not_applicable"]]:
        manifest["not_applicable"].append({"property_id": pid, "reason": "check not built yet in this session (planned: DESIGN.md section 9)"})
json.dump(manifest, open('/verif/MANIFEST.json', 'w'), indent=1)
print("claimed:", sorted(claimed), "n/a:", [n["property_id"] for n in manifest["not_applicable"]])
